"""Per-property configuration and per-harness descriptions (functions encoded, bounds)."""
import re

COMMON_ASSUMPTIONS = [
    "cut S1: alloc::fmt::format stubbed to return an empty String (message text is not part of any property)",
    "cut S2: <std::io::Error as Display>::fmt stubbed to Ok(())",
    "cut S3: pilota::thrift::new_protocol_exception stubbed: same ProtocolExceptionKind, empty message",
    "cut S4: ThriftException::prepend_msg stubbed to a no-op",
    "cut S5: bytes::BytesMut::reserve_inner stubbed to assert(false): output buffers are pre-sized, reaching the growth path is reported as a harness error",
    "cut S6: protocol objects, buffers and results are mem::forget-ed at harness end (drop glue not executed) unless the harness name contains 'drop'",
    "cut S7: input buffers are Bytes::from_static over a leaked array (static vtable)",
    "Kani models the dev profile: debug assertions and overflow checks on; panics are failures",
    "single-threaded; allocation never fails",
]

FEATURE_TAG = {"pb-encode-default-value": "d"}

PB_RT = ["common", "ref_thrift", "ref_pb", "pb", "insts_pb"]
GEN_PB = [("p_scalars", "p_scalars.proto", "plain")]
PB_GEN = PB_RT + ["gen_pb", "pbgen", "insts_pbgen"]

THRIFT_RT = ["common", "protos", "ref_thrift", "l0", "insts_l0", "l1", "insts_l1", "skip", "linked", "insts_linked", "l2", "insts_l2"]

PB_RT = ["common", "ref_thrift", "ref_pb", "pb", "insts_pb"]
GEN_PB = [("p_scalars", "p_scalars.proto", "plain")]
PB_GEN = PB_RT + ["gen_pb", "pbgen", "insts_pbgen"]

GEN_THRIFT = [("t_basic", "t_basic.thrift", "plain"), ("t_evolve_r", "t_evolve_r.thrift", "plain"), ("t_unknown", "t_unknown.thrift", "keep")]

PROPS = {
    "C10": dict(
        modules=PB_RT + ["pbtotal", "insts_c10"],
        hooks=True,
        outside="inputs longer than 13 bytes; symbolic wire types (one harness per concrete wire type); whole generated messages on arbitrary bytes; the recursion limit is established as one inductive step from an arbitrary budget (hook), the 100-deep input itself is not executed; allocation sizes are bounded through the length-prefix checks only",
    ),
    "C11": dict(
        modules=["common", "protos", "ref_thrift", "l0", "l1", "skip", "c11", "insts_c11", "linked", "insts_linked"],
        outside="value trees beyond the 21 shapes of harness/src/skip.rs (containers <= 2 elements, binaries <= 2 bytes); generated types; payloads at or above the 4 KiB zero-copy threshold; a transport that already holds a prefix (window not at the transport's first byte) - not part of the documented contract",
    ),
    "C12": dict(
        modules=["common", "protos", "ref_thrift", "asyncp", "insts_c12"],
        outside="everything but single primitive/string/bytes/field-header reads of the async BINARY reader under 2-chunk delivery with one optional Pending; compact and LE async readers; emitted decode_async; the async skipper",
    ),
    "C13": dict(
        modules=["common", "protos", "ref_thrift", "gen_thrift", "c13", "insts_c13"],
        gen=GEN_THRIFT,
        outside="IDL documents other than corpus/t_unknown.thrift; more than one unknown field; unknown fields inside list elements; the compact protocol (retention is emitted for the binary protocols only)",
    ),
    "C08": dict(
        modules=["common", "protos", "ref_thrift", "gen_thrift", "c08", "insts_c08"],
        gen=GEN_THRIFT,
        outside="reader/writer schema pairs other than corpus/t_evolve_{w,r}.thrift; more than one unknown field per message; the compact protocol; asynchronous decoding",
    ),
    "C02": dict(
        modules=["common", "protos", "ref_thrift", "l0", "l1", "gen_thrift", "c02", "insts_c02", "c02d", "insts_c02d"],
        gen=GEN_THRIFT,
        outside="IDL documents other than corpus/t_basic.thrift; containers with more than 2 elements, strings longer than 2 bytes, recursion deeper than 2; hash containers (ahash RandomState needs getrandom, an unsupported foreign call) - btree containers are used; decode_async (see C12); split / keep_unknown_fields builder options (C13)",
    ),
    "PROBE": dict(modules=["common","protos","ref_thrift","l0","l1","probe"]),
    "C09": dict(
        modules=["common", "protos", "ref_thrift", "l0", "l1", "total", "insts_c09", "gen_thrift", "cuts", "insts_cuts"],
        gen=GEN_THRIFT,
        outside="inputs longer than the per-reader bound (<= 17 bytes); whole emitted decoders on arbitrary bytes (only skeleton+corruption, see harness names); stack depth of recursive schemas; the async readers (C12)",
    ),
    "C07": dict(
        modules=["common", "protos", "ref_thrift", "l0", "l1", "skip", "insts_c07"],
        outside="containers with more than 2 elements, binaries longer than 2 bytes, adversarial input below depth 1, nesting deeper than 3 (10 for the iterative unchecked skipper); the 64/65 depth boundary itself (read from the source: skip() passes the constant 64 and each level decrements once); the async skipper is covered under C12",
    ),
    "C18": dict(
        modules=PB_GEN, gen=GEN_PB,
        outside="messages other than corpus/p_scalars.proto {Small, Rep, Nested}; more than 3 records; unknown fields nested deeper than one group level; symbolic interleavings (record orders are concrete per instance); maps",
    ),
    "C05": dict(
        modules=PB_GEN, gen=GEN_PB,
        # second build with pilota's `pb-encode-default-value` feature: the map codec is the only
        # runtime code that depends on it
        builds=[("", None), ("pb-encode-default-value", ["c05_q_dec_btree_map_w", "c05_q_dec_btree_map_r1"])],
        outside="repeated fields with more than 2 elements, strings/bytes longer than 3, maps with more than 1 entry, hash maps (ahash RandomState needs getrandom), messages beyond the corpus; tags above 2047 for the quick tier of scalar modules (all tags in thorough and for the key codec)",
    ),
    "C06": dict(
        modules=PB_GEN, gen=GEN_PB,
        builds=[("", None), ("pb-encode-default-value", ["c06_q_dec_btree_map_w", "c06_q_dec_btree_map_r1"])],
        outside="as C05",
    ),
    "C01": dict(
        modules=THRIFT_RT,
        outside="strings/binaries longer than 3 bytes (4096-byte zero-copy payload aside), containers with more than 2 elements, nesting deeper than 3, more than 2 values back to back",
    ),
    "C03": dict(
        modules=THRIFT_RT,
        outside="value trees beyond the L0/L1/L2 shapes; message names longer than 2 bytes",
    ),
    "C04": dict(
        modules=THRIFT_RT + ["gen_thrift", "c02", "insts_c02", "c02d", "insts_c02d"],
        gen=GEN_THRIFT,
        outside="as C01; generated types beyond the corpus",
    ),
}

# harness-name regex -> (functions encoded, bound)
DESCR = [
    (r"_l0_(i8|byte|bool|i16|i32|i64|double|uuid)_(\w+)$",
     lambda m: dict(fns="%s: write_%s / read_%s / %s_len (+ rw_ext; integer_encoding::VarInt and VarIntProcessor for compact)" % (proto(m.group(2)), m.group(1), m.group(1), m.group(1)),
                    bound="all values of the type; symbolic 2-byte tail; one value")),
    (r"_l0_(string|faststr|bytes|bytesvec)(\d)_(\w+)$",
     lambda m: dict(fns="%s: write/read/len of %s" % (proto(m.group(3)), m.group(1)),
                    bound="payload length exactly %s, content symbolic (ASCII for string APIs); symbolic 2-byte tail" % m.group(2))),
    (r"_l1_(field_prev|field_prev_struct|field_first|boolfield|fieldfar)_(\w+)$",
     lambda m: dict(fns="%s: write_struct_begin/field_begin/field_end/field_stop/struct_end, read_*, *_len twin" % proto(m.group(2)),
                    bound="field ids symbolic over all i16 (previous id symbolic: compact delta context); wire type concrete per instance; bool value symbolic")),
    (r"_l1_(list|list_bool|set|map|map_struct)_(\w+)$",
     lambda m: dict(fns="%s: write/read/len of %s header" % (proto(m.group(2)), m.group(1)),
                    bound="size symbolic 0..=2^31-1; element/key/value types concrete per instance")),
    (r"_l1_msg\d_(\w+?)_(bin|le|unchecked)$",
     lambda m: dict(fns="%s: write_message_begin/read_message_begin/message_begin_len" % proto(m.group(2)),
                    bound="sequence id symbolic (all i32), name bytes symbolic ASCII of the stated length, message type %s" % m.group(1))),
    (r"_l1_cmsgw", lambda m: dict(fns="TCompactOutputProtocol::write_message_begin / message_begin_len vs reference encoder", bound="sequence id all i32, name symbolic ASCII, message type concrete")),
    (r"_l1_cmsgr(\d)", lambda m: dict(fns="TCompactInputProtocol::read_message_begin on reference-encoded bytes", bound="sequence-id varint of exactly %s bytes with symbolic payload bits; 2-byte symbolic name" % m.group(1))),
    (r"_l1_type_tables", lambda m: dict(fns="TType::try_from(u8), TCompactType::try_from(u8), TType<->TCompactType, TMessageType::try_from", bound="all 256 byte values")),
    (r"_l1_bool_any_byte_(\w+)$", lambda m: dict(fns="%s: read_bool" % proto(m.group(1)), bound="all 256 values of the bool byte")),
    (r"_l1_compact_field_alt_forms", lambda m: dict(fns="TCompactInputProtocol::read_field_begin on reference-encoded headers", bound="last id 0..=32767, delta 1..=15, long or short form chosen symbolically")),
    (r"_l2_(\w+)_then_(\w+?)_(bin|le|unchecked|compact)$",
     lambda m: dict(fns="%s: typed write_*/read_*/*_len over value tree %s followed by %s (harness/src/skip.rs)" % (proto(m.group(3)), m.group(1), m.group(2)),
                    bound="shapes concrete, all leaves symbolic, containers <= 2 elements, binaries <= 2 bytes; two values on one reader")),
    (r"_linked_zero_copy_(\w+)$", lambda m: dict(fns="%s over &mut LinkedBytes: write_bytes with zero_copy on, LinkedBytes::insert" % proto(m.group(1)), bound="one 4096-byte payload (first/last byte symbolic) followed by one symbolic i8")),
    (r"_linked_(\w+?)_(bin|le|unchecked|compact)$",
     lambda m: dict(fns="%s: LinkedBytes writer vs BytesMut writer, same call sequence" % proto(m.group(2)),
                    bound="struct{prev: i8; id: %s; after: i8} with three symbolic ids in (-8000, 8000) in arbitrary order, zero_copy flag symbolic" % m.group(1))),
    (r"c0[24]_\w_gen_(\w+?)_(bin|le|unchecked|compact)$",
     lambda m: dict(fns="emitted <t_basic::%s as Message>::{size, encode, decode} via %s" % (m.group(1), proto(m.group(2))),
                    bound="all leaf values; presence of optionals and container sizes concrete per instance; strings <= 2 bytes")),
    (r"c0[24]_\w_gend_(\w+)_(w|r)$", lambda m: dict(fns="emitted <t_basic::%s as Message>::%s vs reference encoder (hand-transcribed schema)" % (m.group(1), "encode/size" if m.group(2) == "w" else "decode"), bound="all leaf values; presence/sizes concrete")),
    (r"c07_\w_written_(\w+?)_(bin|le|unchecked|compact)$",
     lambda m: dict(fns="%s: read_field_begin + skip()" % proto(m.group(2)), bound="writer-produced value of shape %s with symbolic leaves, symbolic field id, symbolic 2-byte tail" % m.group(1))),
    (r"c07_\w_concrete_(\w+?)_(bin|le|unchecked|compact)$",
     lambda m: dict(fns="%s: write_* (value of shape %s) + skip()" % (proto(m.group(2)), m.group(1)), bound="writer-produced value of shape %s with CONCRETE leaves (1-, 2-, 3- and 10-byte varints), symbolic tail byte" % m.group(1))),
    (r"c07_\w_depth(\d)_limit(\d+)_(\w+)$",
     lambda m: dict(fns="%s: skip_till_depth" % proto(m.group(3)), bound="struct nested %s deep (concrete), depth budget %s" % (m.group(1), m.group(2)))),
    (r"c07_\w_arbitrary_(\w+?)_(\d+)_(\w+)$",
     lambda m: dict(fns="%s: skip_till_depth(%s, 1)" % (proto(m.group(3)), m.group(1)), bound="arbitrary buffer of exactly %s bytes" % m.group(2))),
    (r"c07_\w_void_", lambda m: dict(fns="skip_till_depth(Void|Stop)", bound="arbitrary 4 bytes")),
    (r"c08_\w_rec_(\w+)_pos(\d)_(\w+)$",
     lambda m: dict(fns="emitted <t_evolve_r::Rec as Message>::decode (+ real skipper) via %s" % proto(m.group(3)),
                    bound="reference-encoded: required field + record %s at position %s; payload bytes symbolic" % (m.group(1), m.group(2)))),
    (r"c08_\w_required_absent_(\w+)_(\w+)$", lambda m: dict(fns="emitted Rec::decode", bound="only record %s present (required field absent)" % m.group(1))),
    (r"c08_\w_union_(\w+)_(bin|le|unchecked)$", lambda m: dict(fns="emitted <t_evolve_r::Choice as Message>::decode via %s" % proto(m.group(2)), bound="union configuration %s; payloads symbolic" % m.group(1))),
    (r"c09_\w_gen_inner_cut(\d+)_(\w+)$", lambda m: dict(fns="emitted <t_basic::Inner as Message>::decode via %s" % proto(m.group(2)), bound="valid 17-byte skeleton (i32 and string payload symbolic) cut at offset %s" % m.group(1))),
    (r"c09_\w_gen_inner_corrupt_len", lambda m: dict(fns="emitted Inner::decode, read_faststr, split_to_checked", bound="valid skeleton with the string length prefix replaced by any 32-bit value")),
    (r"c09_\w_read_r_(\w+?)_(bin|le|compact)$",
     lambda m: dict(fns="%s: read_%s" % (proto(m.group(2)), m.group(1)), bound="arbitrary buffer of symbolic length up to the per-reader bound (3..17 bytes)")),
    (r"c09_\w_skipfixed_(\w+?)_(bin|le|compact)$",
     lambda m: dict(fns="%s: TInputProtocol::skip_till_depth(%s, 1) (default skipper)" % (proto(m.group(2)), m.group(1)), bound="arbitrary buffer of symbolic length 0..=width+1: every truncation point of the fixed-width value")),
    (r"c10_\w_varint_arbitrary_(\d+)", lambda m: dict(fns="prost::encoding::decode_varint (+_slice, +_slow)", bound="arbitrary slice of symbolic length <= %s vs reference LEB128 decoder" % m.group(1))),
    (r"c10_\w_arbitrary_d_(\w+)_(\d+)$", lambda m: dict(fns="prost decoder %s" % m.group(1), bound="arbitrary slice of symbolic length <= %s; wire type concrete" % m.group(2))),
    (r"c10_\w_budget_(\w+)$", lambda m: dict(fns="prost::encoding %s merge / skip_field with DecodeContext::verif_with_budget(n)" % m.group(1), bound="every u32 recursion budget n; concrete 3-5 byte input")),
    (r"c11_\w_(write_diff_bytesmut|write_diff_linked|read_diff|skip_diff)_(\w+)$",
     lambda m: dict(fns="TBinaryUnsafe{Output,Input}Protocol vs binary::TBinaryProtocol: %s" % m.group(1), bound="shape %s, all leaves and the field id symbolic; exact-size output buffer" % m.group(2))),
    (r"c0[56]_\w_varint_(\w+)$", lambda m: dict(fns="encode_varint / encoded_len_varint / decode_varint, chunk layout %s" % m.group(1), bound="all u64 values")),
    (r"c0[56]_\w_key$", lambda m: dict(fns="encode_key / key_len / decode_key", bound="all tags 1..=2^29-1, all six wire types")),
    (r"c0[56]_\w_(\w+?)_(tag11bit|anytag)$", lambda m: dict(fns="prost::encoding::%s::{encode, encoded_len, merge}" % m.group(1), bound="all values; tag %s" % ("1..=2047" if m.group(2) == "tag11bit" else "1..=2^29-1"))),
    (r"c0[56]_\w_(string|faststr|bytes|vec)(\d)$", lambda m: dict(fns="prost::encoding::%s" % m.group(1), bound="payload of exactly %s symbolic bytes, tag 9" % m.group(2))),
    (r"c0[56]_\w_rep_", lambda m: dict(fns="encode_repeated/encode_packed/merge_repeated/encoded_len_*", bound="2 symbolic elements, tag 7")),
    (r"c0[56]_\w_dec_(\w+)_w$", lambda m: dict(fns="encode side of %s vs reference encoder (+ encoded_len)" % m.group(1), bound="all values")),
    (r"c0[56]_\w_dec_(\w+)_r", lambda m: dict(fns="decode side of %s on reference-encoded bytes" % m.group(1), bound="concrete record layout and varint lengths, symbolic payload bits")),
    (r"c0[56]_\w_gen_small_w", lambda m: dict(fns="emitted <p_scalars::Small as prost::Message>::{encode, encoded_len}", bound="all values of sint32 s and fixed32 f")),
    (r"c0[56]_\w_gen_small_r", lambda m: dict(fns="emitted Small::decode on reference-encoded bytes", bound="both field orders; zigzag varint of the stated length with symbolic payload")),
    (r"c18_\w_gen_(\w+?)_u_(\w+)$", lambda m: dict(fns="emitted prost Message::decode (merge loop, skip_field) for %s" % m.group(1), bound="reference-built concatenation with symbolic fixed-width payloads; unknown field kind %s between records" % m.group(2))),
]


def proto(p):
    return {"bin": "binary::TBinaryProtocol", "le": "binary_le::TBinaryProtocol", "compact": "TCompact{Output,Input}Protocol",
            "unchecked": "TBinaryUnsafe{Output,Input}Protocol"}.get(p, p)


def describe(hid):
    for rx, f in DESCR:
        m = re.search(rx, hid)
        if m:
            return f(m)
    return dict(fns="see harness source " + hid, bound="see harness source")
