"""Per-property configuration and per-harness descriptions (functions encoded, bounds)."""
import re

COMMON_ASSUMPTIONS = [
    "cut S1: alloc::fmt::format stubbed to return an empty String (message text is not part of any property)",
    "cut S2: <std::io::Error as Display>::fmt stubbed to Ok(())",
    "cut S3: pilota::thrift::new_protocol_exception stubbed: same ProtocolExceptionKind, empty message",
    "cut S4: ThriftException::prepend_msg stubbed to a no-op",
    "cut S5: bytes::BytesMut::reserve_inner stubbed to assert(false): output buffers are pre-sized, reaching the growth path is reported as a harness error",
    "cut S6: protocol objects, buffers and results are mem::forget-ed at harness end (drop glue not executed) unless the harness name contains 'drop'",
    "cut S7: input buffers are Bytes::from_static over a leaked array (static vtable)",
    "Kani models the dev profile: debug assertions and overflow checks on; panics are failures",
    "single-threaded; allocation never fails",
]

FEATURE_TAG = {"pb-encode-default-value": "d"}

PB_RT = ["common", "ref_thrift", "ref_pb", "pb", "insts_pb"]
GEN_PB = [("p_scalars", "p_scalars.proto", "plain")]
PB_GEN = PB_RT + ["gen_pb", "pbgen", "insts_pbgen"]

THRIFT_RT = ["common", "protos", "ref_thrift", "l0", "insts_l0", "l1", "insts_l1", "skip", "linked", "insts_linked", "l2", "insts_l2"]

PB_RT = ["common", "ref_thrift", "ref_pb", "pb", "insts_pb"]
GEN_PB = [("p_scalars", "p_scalars.proto", "plain")]
PB_GEN = PB_RT + ["gen_pb", "pbgen", "insts_pbgen"]

GEN_THRIFT = [("t_basic", "t_basic.thrift", "plain"), ("t_evolve_r", "t_evolve_r.thrift", "plain")]

PROPS = {
    "C10": dict(
        modules=PB_RT + ["pbtotal", "insts_c10"],
        hooks=True,
        outside="inputs longer than 13 bytes; symbolic wire types (one harness per concrete wire type); whole generated messages on arbitrary bytes; the recursion limit is established as one inductive step from an arbitrary budget (hook), the 100-deep input itself is not executed; allocation sizes are bounded through the length-prefix checks only",
    ),
    "C11": dict(
        modules=["common", "protos", "ref_thrift", "l0", "l1", "skip", "c11", "insts_c11"],
        outside="value trees beyond the 21 shapes of harness/src/skip.rs (containers <= 2 elements, binaries <= 2 bytes); generated types; payloads at or above the 4 KiB zero-copy threshold; a transport that already holds a prefix (window not at the transport's first byte) - not part of the documented contract",
    ),
    "C08": dict(
        modules=["common", "protos", "ref_thrift", "gen_thrift", "c08", "insts_c08"],
        gen=GEN_THRIFT,
        outside="reader/writer schema pairs other than corpus/t_evolve_{w,r}.thrift; more than one unknown field per message; the compact protocol; asynchronous decoding",
    ),
    "C02": dict(
        modules=["common", "protos", "ref_thrift", "gen_thrift", "c02", "insts_c02"],
        gen=GEN_THRIFT,
        outside="IDL documents other than corpus/t_basic.thrift; containers with more than 2 elements, strings longer than 2 bytes, recursion deeper than 2; hash containers (ahash RandomState needs getrandom, an unsupported foreign call) - btree containers are used; decode_async (see C12); split / keep_unknown_fields builder options (C13)",
    ),
    "PROBE": dict(modules=["common","protos","ref_thrift","l0","l1","probe"]),
    "C09": dict(
        modules=["common", "protos", "ref_thrift", "l0", "l1", "total", "insts_c09"],
        outside="inputs longer than the per-reader bound (<= 17 bytes); whole emitted decoders on arbitrary bytes (only skeleton+corruption, see harness names); stack depth of recursive schemas; the async readers (C12)",
    ),
    "C07": dict(
        modules=["common", "protos", "ref_thrift", "l0", "l1", "skip", "insts_c07"],
        outside="containers with more than 2 elements, binaries longer than 2 bytes, adversarial input below depth 1, nesting deeper than 3 (10 for the iterative unchecked skipper); the 64/65 depth boundary itself (read from the source: skip() passes the constant 64 and each level decrements once); the async skipper is covered under C12",
    ),
    "C18": dict(
        modules=PB_GEN, gen=GEN_PB,
        outside="messages other than corpus/p_scalars.proto {Small, Rep, Nested}; more than 3 records; unknown fields nested deeper than one group level; symbolic interleavings (record orders are concrete per instance); maps",
    ),
    "C05": dict(
        modules=PB_GEN, gen=GEN_PB,
        outside="repeated fields with more than 2 elements, strings/bytes longer than 3, maps with more than 1 entry, hash maps (ahash RandomState needs getrandom), messages beyond the corpus; tags above 2047 for the quick tier of scalar modules (all tags in thorough and for the key codec)",
    ),
    "C06": dict(
        modules=PB_GEN, gen=GEN_PB,
        outside="as C05",
    ),
    "C01": dict(
        modules=THRIFT_RT,
        outside="strings/binaries longer than 3 bytes (4096-byte zero-copy payload aside), containers with more than 2 elements, nesting deeper than 3, more than 2 values back to back",
    ),
    "C03": dict(
        modules=THRIFT_RT,
        outside="value trees beyond the L0/L1/L2 shapes; message names longer than 2 bytes",
    ),
    "C04": dict(
        modules=THRIFT_RT + ["gen_thrift", "c02", "insts_c02"],
        gen=GEN_THRIFT,
        outside="as C01; generated types beyond the corpus",
    ),
}

# harness-name regex -> (functions encoded, bound)
DESCR = [
    (r"_l0_(i8|byte|bool|i16|i32|i64|double|uuid)_(\w+)$",
     lambda m: dict(fns="%s: write_%s / read_%s / %s_len (+ rw_ext, varint for compact)" % (proto(m.group(2)), m.group(1), m.group(1), m.group(1)),
                    bound="all values of the type; symbolic 2-byte tail; one value")),
    (r"_l0_(string|faststr|bytes|bytesvec)(\d)_(\w+)$",
     lambda m: dict(fns="%s: write/read/len of %s" % (proto(m.group(3)), m.group(1)),
                    bound="payload length exactly %s, content symbolic (ASCII for string APIs); symbolic 2-byte tail" % m.group(2))),
]


def proto(p):
    return {"bin": "binary::TBinaryProtocol", "le": "binary_le::TBinaryProtocol", "compact": "TCompact{Output,Input}Protocol",
            "unchecked": "TBinaryUnsafe{Output,Input}Protocol"}.get(p, p)


def describe(hid):
    for rx, f in DESCR:
        m = re.search(rx, hid)
        if m:
            return f(m)
    return dict(fns="see harness source " + hid, bound="see harness source")
