#!/usr/bin/env python3
"""Driver for the solver-based checks of cloudwego/pilota (see /verif/DESIGN.md).

Per invocation: instantiate the harness crate in a scratch directory with path dependencies
on /repo (so Kani recompiles /repo's *current* working tree into the goto program), run the
selected Kani/CBMC harnesses in parallel, parse the verdicts fail-closed, replay every
counterexample natively against the real crates, match against known_findings.json, and
write /verif/evidence/<id>.json.

Exit codes: 0 property held on everything decided; 1 replayed unlisted violation
(prints `VIOLATION property=<id> replay=<path>`); 2 inconclusive / build failure.
"""
import argparse, json, os, re, resource, shutil, signal, subprocess, sys, time, hashlib, glob

VERIF = os.path.dirname(os.path.dirname(os.path.abspath(__file__)))
REPO = os.environ.get("VERIF_REPO", "/repo")
SCRATCH_ROOT = os.environ.get("VERIF_SCRATCH", "/var/tmp/pilota-verif")
CACHE = os.path.join(VERIF, ".build")

sys.path.insert(0, os.path.join(VERIF, "lib"))
import meta  # noqa: E402


def log(*a):
    print(*a, flush=True)


EXTRA_ENV = {}


def env_base():
    e = dict(os.environ)
    e["CARGO_NET_OFFLINE"] = "true"
    e.pop("RUSTFLAGS", None)
    e.pop("RUSTUP_TOOLCHAIN", None)
    e.update(EXTRA_ENV)
    return e


def limit_mem(gb):
    def f():
        b = int(gb * (1 << 30))
        resource.setrlimit(resource.RLIMIT_AS, (b, b))
        os.setsid()
    return f


def _cbmc_children(pgid):
    """(pid, rss_kb) of cbmc processes in the process group."""
    out = []
    try:
        txt = subprocess.check_output(["ps", "-eo", "pid,pgid,rss,comm"], text=True)
    except Exception:
        return out
    for line in txt.splitlines()[1:]:
        f = line.split()
        if len(f) >= 4 and f[3] == "cbmc" and int(f[1]) == pgid:
            out.append((int(f[0]), int(f[2])))
    return out


def run(cmd, cwd, logf, timeout, mem_gb=None, env=None):
    """Run cmd, log into logf, kill the whole process group on timeout. A watchdog kills any
    single cbmc process whose resident set exceeds mem_gb (Kani then reports that harness as
    FAILED without a failed check, which the verdict parser counts as inconclusive) - an
    address-space rlimit would also hit rustc and the Kani driver. Returns (rc, timed_out)."""
    with open(logf, "ab") as lf:
        lf.write(("\n$ " + " ".join(cmd) + "\n").encode())
        lf.flush()
        p = subprocess.Popen(cmd, cwd=cwd, stdout=lf, stderr=subprocess.STDOUT,
                             env=env or env_base(), preexec_fn=os.setsid)
        t_end = time.time() + timeout
        while True:
            try:
                rc = p.wait(timeout=4)
                return rc, False
            except subprocess.TimeoutExpired:
                pass
            if mem_gb:
                for pid, rss in _cbmc_children(p.pid):
                    if rss > mem_gb * 1024 * 1024:
                        lf.write(("\n[driver] killing cbmc pid %d: rss %.1f GB over the %.1f GB cap\n" % (pid, rss / 1048576.0, mem_gb)).encode())
                        lf.flush()
                        try:
                            os.kill(pid, signal.SIGKILL)
                        except ProcessLookupError:
                            pass
            if time.time() > t_end:
                try:
                    os.killpg(p.pid, signal.SIGKILL)
                except ProcessLookupError:
                    pass
                p.wait()
                return -9, True


# ----------------------------------------------------------------------------- scratch crate
def make_scratch(prop, tier, features=""):
    tag = "%s-%s-%d" % (prop, tier, os.getpid())
    root = os.path.join(SCRATCH_ROOT, tag)
    shutil.rmtree(root, ignore_errors=True)
    os.makedirs(root)
    hk = os.path.join(root, "hk")
    shutil.copytree(os.path.join(VERIF, "harness", "src"), os.path.join(hk, "src"))
    tmpl = open(os.path.join(VERIF, "harness", "Cargo.toml.in")).read()
    feat = (', features = [%s]' % ", ".join('"%s"' % f for f in features.split(",") if f)) if features else ""
    open(os.path.join(hk, "Cargo.toml"), "w").write(
        tmpl.replace("@REPO@", REPO).replace("@PILOTA_FEATURES@", feat))
    shutil.copy(os.path.join(REPO, "Cargo.lock"), os.path.join(hk, "Cargo.lock"))
    return root, hk


def seed_target(root):
    """Per-run Kani target dir, pre-seeded from the dependency cache made by setup (a real
    copy: concurrent checks never share a target dir)."""
    tgt = os.path.join(root, "target")
    src = os.path.join(CACHE, "kani-target")
    if os.path.isdir(src):
        subprocess.call(["cp", "-a", src, tgt])
        # never reuse artifacts of /repo's crates or of the harness crate: the encoding is
        # regenerated from the current sources on every run; only third-party crates are cached
        for pat in ("kani/*/debug/build/pilota*", "kani/*/debug/build/hk", "kani/*/debug/incremental/pilota*",
                    "kani/*/debug/incremental/hk*"):
            for d in glob.glob(os.path.join(tgt, pat)):
                shutil.rmtree(d, ignore_errors=True)
    return tgt


# ----------------------------------------------------------------------------- generator (engine G)
def run_generator(root, hk, logf, wanted):
    """Build /verif/gen against the current /repo/pilota-build and emit Rust for the corpus.
    The emitted files are include!d by the harness crate (src/gen/*.rs)."""
    gen_src = os.path.join(VERIF, "gen")
    gdir = os.path.join(root, "gen")
    shutil.copytree(gen_src, gdir, ignore=shutil.ignore_patterns("target"))
    ct = open(os.path.join(gdir, "Cargo.toml.in")).read().replace("@REPO@", REPO)
    open(os.path.join(gdir, "Cargo.toml"), "w").write(ct)
    shutil.copy(os.path.join(REPO, "Cargo.lock"), os.path.join(gdir, "Cargo.lock"))
    tgt = os.path.join(root, "gen-target")
    src = os.path.join(CACHE, "gen-target")
    if os.path.isdir(src):
        subprocess.call(["cp", "-a", src, tgt])
    rc, to = run(["cargo", "build", "--offline", "--release", "--target-dir", tgt], gdir, logf, 1500)
    if rc != 0:
        return False, "generator driver does not build against the current pilota-build"
    outdir = os.path.join(hk, "src", "gen")
    os.makedirs(outdir, exist_ok=True)
    exe = os.path.join(tgt, "release", "gen")
    for spec in wanted:
        name, idl, mode = spec
        out = os.path.join(outdir, name + ".rs")
        rc, to = run([exe, os.path.join(VERIF, "corpus", idl), out, mode], gdir, logf, 300)
        if rc != 0 or not os.path.isfile(out):
            return False, "generator failed (panic / non-zero exit) on corpus file %s mode=%s" % (idl, mode)
    return True, ""


# ----------------------------------------------------------------------------- kani
def kani_cmd(filters, tgt, jobs, harness_timeout, export, extra=None, exact=False):
    cmd = ["cargo", "kani", "-Z", "stubbing", "-Z", "unstable-options", "--target-dir", tgt]
    if exact:
        cmd.append("--exact")
    for f in filters:
        cmd += ["--harness", f]
    cmd += ["-j", str(jobs), "--output-format", "terse", "--harness-timeout", "%ds" % harness_timeout]
    if export:
        cmd += ["--export-json", export]
    if extra:
        cmd += extra
    return cmd


UNWIND_RE = re.compile(r"unwinding assertion", re.I)


def classify_check(c):
    """A failed CBMC check -> kind."""
    d = c.get("description", "")
    cat = c.get("category", "")
    if d.startswith("HARNESS:"):
        return "harness"
    if cat == "unwind" or UNWIND_RE.search(d):
        return "unwind"
    if cat == "unsupported_construct" or "unsupported" in d.lower() or "is not currently supported by Kani" in d:
        return "unsupported"
    return "property"


def parse_export(path):
    d = json.load(open(path))
    res = {}
    stats = {e["harness_id"]: e for e in d.get("cbmc", [])}
    props = {e["harness_id"]: e.get("property_details", {}) for e in d.get("property_details", [])}
    for r in d["verification_results"]["results"]:
        hid = r["harness_id"]
        failed, covers_unsat, undet = [], [], 0
        for c in r.get("checks", []):
            st = (c.get("status") or "").upper()
            cat = c.get("category", "")
            if cat == "cover" or c.get("description", "").startswith("cover"):
                if st in ("UNSATISFIABLE", "UNREACHABLE", "UNCOVERED"):
                    covers_unsat.append(c)
                continue
            if st in ("FAILURE", "FAILED"):
                failed.append(c)
            elif st in ("UNDETERMINED", "ERROR", "SOLVER_ERROR"):
                undet += 1
        res[hid] = dict(status=r.get("status"), duration_ms=r.get("duration_ms"), failed=failed,
                        covers_unsat=covers_unsat, undetermined=undet,
                        nchecks=len(r.get("checks", [])),
                        cbmc=stats.get(hid, {}).get("cbmc_stats", {}),
                        props=props.get(hid, {}))
    return d, res


# ----------------------------------------------------------------------------- known findings
def load_known():
    p = os.path.join(VERIF, "known_findings.json")
    if not os.path.isfile(p):
        return []
    return json.load(open(p)).get("findings", [])


def match_known(known, prop, harness, check):
    for k in known:
        if k["property"] != prop:
            continue
        if not re.search(k["harness"], harness):
            continue
        if not re.search(k["check"], check.get("description", "")):
            continue
        if "function" in k and not re.search(k["function"], check.get("function", "") or ""):
            continue
        if "file" in k and not re.search(k["file"], (check.get("location") or {}).get("file", "") or ""):
            continue
        return k
    return None


# ----------------------------------------------------------------------------- replay
PLAYBACK_RE = re.compile(r"(/// Test generated for harness.*?\n#\[test\]\nfn (kani_concrete_playback_\w+)\(\).*?\n}\n)", re.S)


def replay(prop, harness, hk, tgt, logf, timeout=3300):
    """Re-run one harness with concrete playback, append the generated unit test to the module
    of the harness and run it natively (dev profile, real code, no stubs).
    Returns (reproduced: bool|None, path, note)."""
    rlog = logf + ".replay." + harness.replace("::", "_")
    cmd = ["cargo", "kani", "-Z", "stubbing", "-Z", "unstable-options", "-Z", "concrete-playback",
           "--concrete-playback=print", "--target-dir", tgt, "--exact", "--harness", harness,
           "--harness-timeout", "%ds" % timeout]
    rc, to = run(cmd, hk, rlog, timeout + 600, mem_gb=30)
    txt = open(rlog, errors="replace").read()
    # Kani prints one test per failed assertion AND per satisfied cover; only the former are
    # counterexamples
    tests = [m for m in PLAYBACK_RE.finditer(txt) if "Check for `assertion`" in m.group(1) or "Check for `cover`" not in m.group(1)]
    if not tests:
        return None, None, "no concrete playback test was produced"
    test_src = "".join(m.group(1) for m in tests)
    test_name = "kani_concrete_playback_"
    mod = harness.split("::")[0]
    modfile = os.path.join(hk, "src", mod + ".rs")
    rdir = os.path.join(os.environ.get("VERIF_REPLAY_DIR") or os.path.join(VERIF, "replay"), prop)
    os.makedirs(rdir, exist_ok=True)
    rpath = os.path.join(rdir, harness.replace("::", "__") + ".rs")
    open(rpath, "w").write(
        "// Counterexample for harness %s (property %s), produced by CBMC via Kani concrete playback.\n"
        "// Replay: ./bin/check %s --replay %s   (appends this test to harness/src/%s.rs in a scratch\n"
        "// crate and runs `cargo kani playback` natively against /repo, without any stub).\n%s"
        % (harness, prop, prop, rpath, mod, test_src))
    ok_, note = run_playback(hk, modfile, test_src, test_name, rlog, harness)
    return ok_, rpath, note


def run_playback(hk, modfile, test_src, test_name, rlog, harness=""):
    orig = open(modfile).read()
    nested = harness.split("::")[1:-1]  # harnesses may live in a nested module of the file
    uses = "    use super::*;\n" + ("    use super::%s::*;\n" % "::".join(nested) if nested else "")
    open(modfile, "w").write(orig + "\n#[cfg(kani)]\nmod replay_tests {\n" + uses + test_src + "}\n")
    try:
        cmd = ["cargo", "kani", "playback", "-Z", "concrete-playback", "--", test_name]
        rc, to = run(cmd, hk, rlog, 1500)
        txt = open(rlog, errors="replace").read()
        tail = txt[txt.rfind("$ cargo kani playback"):]
        tail = tail.split("Doc-tests")[0]
        if re.search(r"test result: FAILED|panicked at", tail):
            m = re.search(r"panicked at ([^\n]*)\n([^\n]*)", tail)
            return True, ("native run fails: " + (m.group(1) + " " + m.group(2) if m else "test failed"))[:400]
        if re.search(r"test result: ok\. [1-9]\d* passed", tail):
            return False, "native run of the counterexample passes (encoding or stub mismatch)"
        return None, "playback did not run (rc=%s)" % rc
    finally:
        open(modfile, "w").write(orig)


# ----------------------------------------------------------------------------- main check
def check(prop, tier, only=None, keep=False, jobs=None, calibrate=False):
    t0 = time.time()
    seed = int(os.environ.get("VERIF_SEED", "0") or 0)
    cfg = meta.PROPS[prop]
    evdir = os.environ.get("VERIF_EVIDENCE_DIR") or os.path.join(VERIF, "evidence")
    os.makedirs(evdir, exist_ok=True)
    evpath = os.path.join(evdir, prop + ".json")
    if os.path.exists(evpath):
        os.remove(evpath)
    known = load_known()
    filters = [("%s_q_" % prop.lower())]
    okfile = os.path.join(VERIF, "harness", "thorough_ok", prop + ".txt")
    if tier == "thorough":
        if calibrate:
            # calibration: run every thorough-only harness; those that are conclusive on the
            # unchanged tree are written to harness/thorough_ok/<id>.txt (committed)
            filters = ["%s_t_" % prop.lower()]
        elif os.path.isfile(okfile):
            # registered thorough tier = quick harnesses + the thorough-only harnesses that were
            # conclusive on the unchanged tree within the caps (calibrated allowlist)
            filters += [l.strip() for l in open(okfile) if l.strip() and not l.startswith("#")]
    if only:
        filters = only.split(",")
    jobs = jobs or int(os.environ.get("VERIF_JOBS", "14" if tier == "quick" else "8"))
    h_timeout = cfg.get("timeout_" + tier, 420 if tier == "quick" else 1500)
    if calibrate:
        h_timeout = 700  # registered thorough harnesses get >= 2x headroom
    # per-cbmc resident-set cap: jobs * cap stays below the 62 GB of the sandbox
    mem = float(os.environ.get("VERIF_MEM_GB", 0) or max(3.0, 52.0 / jobs))

    builds = cfg.get("builds", [("", None)])  # (pilota feature, harness filters or None = the tier's set)
    if only or calibrate:
        builds = [("", None)]
    all_res, inconclusive, violations, knowns, samples = {}, [], [], [], []
    known_only = set()  # harnesses whose only failed checks are listed known findings
    replays_done = 0
    export_meta = {}
    logdir = os.path.join(SCRATCH_ROOT, "logs")
    os.makedirs(logdir, exist_ok=True)
    logf = os.path.join(logdir, "%s-%s-%d.log" % (prop, tier, os.getpid()))
    open(logf, "w").close()
    roots = []
    try:
        for feat, feat_filters in builds:
            root, hk = make_scratch(prop, tier + ("-" + feat if feat else ""), feat)
            roots.append(root)
            # module list: only what this property needs is compiled
            write_lib_rs(hk, cfg["modules"], bool(cfg.get("gen")))
            if cfg.get("gen"):
                okg, why = run_generator(root, hk, logf, cfg["gen"])
                if not okg:
                    log("BUILD-FAILURE: %s (see %s)" % (why, logf))
                    inconclusive.append(dict(harness="<generator>", why=why))
                    continue
            tgt = seed_target(root)
            export = os.path.join(root, "out.json")
            flt = list(feat_filters) if feat_filters else filters
            extra = ["--features", "feat_on"] if feat else None
            cmd = kani_cmd(flt, tgt, jobs, h_timeout, export, extra=extra)
            if cfg.get("hooks"):
                # verification hooks in /repo are compiled in only for these checks
                EXTRA_ENV["RUSTFLAGS"] = "--cfg pilota_verif"
            kenv = env_base()
            total_to = cfg.get("total_timeout_" + tier, 3000 if tier == "quick" else 6 * 3600)
            rc, timed_out = run(cmd, hk, logf, total_to, mem_gb=mem, env=kenv)
            if not os.path.isfile(export):
                # allowlist entries whose harness was renamed or removed since calibration: drop
                # them (they are then simply not part of this run) and retry once
                txt0 = open(logf, errors="replace").read()
                m0 = re.search(r"Failed to match the following harness\(es\):\n((?:\S+\n)+)", txt0)
                if m0:
                    stale = set(m0.group(1).split())
                    flt2 = [f for f in flt if f not in stale]
                    if flt2 and len(flt2) < len(flt):
                        log("note: %d stale thorough allowlist entries ignored: %s" % (len(flt) - len(flt2), ", ".join(sorted(stale))[:300]))
                        cmd = kani_cmd(flt2, tgt, jobs, h_timeout, export, extra=extra)
                        rc, timed_out = run(cmd, hk, logf, total_to, mem_gb=mem, env=kenv)
            if not os.path.isfile(export):
                txt = open(logf, errors="replace").read()
                if re.search(r"error(\[E\d+\])?:", txt) and "could not compile" in txt:
                    why = "harness crate or /repo does not compile under Kani"
                elif "No proof harnesses" in txt or "no harnesses matched" in txt.lower():
                    why = "no harness matched " + str(flt)
                else:
                    why = "cargo kani produced no result file (rc=%s timed_out=%s)" % (rc, timed_out)
                log("BUILD-FAILURE: %s (see %s)" % (why, logf))
                inconclusive.append(dict(harness="<build>", why=why))
                continue
            d, res = parse_export(export)
            export_meta = dict(tools=d.get("tools"), metadata=d.get("metadata"))
            for hid0, r in sorted(res.items()):
                hid = hid0 + ("@" + feat if feat else "")
                all_res[hid] = r
                fails = r["failed"]
                kinds = [classify_check(c) for c in fails]
                if r["status"] not in ("Success", "Failure") or r["undetermined"]:
                    inconclusive.append(dict(harness=hid, why="status=%s undetermined=%d" % (r["status"], r["undetermined"])))
                    continue
                if r["status"] == "Failure" and not fails:
                    inconclusive.append(dict(harness=hid, why="FAILED without a failed check (timeout / out of memory / solver error)"))
                    continue
                for c, k in zip(fails, kinds):
                    if k != "property":
                        inconclusive.append(dict(harness=hid, why="%s: %s" % (k, c.get("description"))))
                pfails = [c for c, k in zip(fails, kinds) if k == "property"]
                unknown = []
                has_known = False
                for c in pfails:
                    k = match_known(known, prop, hid, c)
                    if k:
                        knowns.append((k, hid, c))
                        has_known = True
                        known_only.add(hid)
                    else:
                        unknown.append(c)
                if unknown:
                    known_only.discard(hid)
                # a failed assertion is assumed afterwards, so covers behind a KNOWN finding (or
                # behind a violation that is reported anyway) are expectedly unreachable
                if r["covers_unsat"] and not has_known and not unknown:
                    inconclusive.append(dict(harness=hid, why="vacuity: cover property not satisfiable: %s" % r["covers_unsat"][0].get("description")))
                if unknown:
                    rep, rpath, note = replay(prop, hid0, hk, tgt, logf)
                    replays_done += 1
                    desc = "; ".join(sorted(set("%s @ %s:%s" % (c.get("description"), os.path.basename((c.get("location") or {}).get("file", "?")), (c.get("location") or {}).get("line", "?")) for c in unknown)))[:600]
                    if rep:
                        violations.append(dict(harness=hid, checks=desc, replay=rpath, note=note))
                    else:
                        inconclusive.append(dict(harness=hid, why="counterexample did not reproduce natively (%s): %s" % (note, desc)))
    finally:
        if not keep:
            for r in roots:
                shutil.rmtree(r, ignore_errors=True)

    # ---- report
    seen = set()
    for k, hid, c in knowns:
        key = k["id"]
        if key in seen:
            continue
        seen.add(key)
        log("KNOWN-FINDING: property=%s %s [%s]" % (prop, k["what"], key))
    for v in violations:
        log("VIOLATION property=%s replay=%s" % (prop, v["replay"]))
        log("  harness=%s failed: %s" % (v["harness"], v["checks"]))
        log("  %s" % v["note"])
    for i in inconclusive:
        log("INCONCLUSIVE: %s: %s" % (i["harness"], i["why"]))

    wall = time.time() - t0
    write_evidence(prop, tier, seed, cfg, all_res, inconclusive, violations, knowns, replays_done, wall, export_meta, evpath, h_timeout, jobs)
    n_ok = sum(1 for r in all_res.values() if r["status"] == "Success")
    log("%s %s: %d harnesses, %d verified, %d known-finding checks, %d violations, %d inconclusive, %.0fs (log %s)"
        % (prop, tier, len(all_res), n_ok, len(knowns), len(violations), len(inconclusive), wall, logf))
    if calibrate:
        good = sorted(h for h, r in all_res.items()
                      if ((r["status"] == "Success" and not r["covers_unsat"]) or h in known_only) and not r["undetermined"]
                      and not any(i["harness"] == h for i in inconclusive))
        os.makedirs(os.path.dirname(okfile), exist_ok=True)
        open(okfile, "w").write("# thorough-only harnesses of %s that were conclusive on the unchanged tree (bin/check %s --tier thorough --calibrate)\n" % (prop, prop) + "\n".join(good) + "\n")
        log("calibration: %d of %d thorough-only harnesses conclusive -> %s" % (len(good), len(all_res), okfile))
    if violations:
        return 1
    if inconclusive or not all_res:
        return 2
    return 0


def write_lib_rs(hk, modules, has_gen):
    lines = ["#![allow(unused, clippy::all, non_snake_case, non_camel_case_types, non_upper_case_globals)]"]
    for m in modules:
        lines.append("pub mod %s;" % m)
    open(os.path.join(hk, "src", "lib.rs"), "w").write("\n".join(lines) + "\n")


def write_evidence(prop, tier, seed, cfg, all_res, inconclusive, violations, knowns, replays, wall, export_meta, evpath, h_timeout, jobs):
    harnesses = []
    tot_vcc = tot_steps = 0
    solver_s = symex_s = 0.0
    for hid, r in sorted(all_res.items()):
        st = r["cbmc"] or {}
        tot_vcc += int(st.get("vccs_generated") or 0)
        tot_steps += int(st.get("size_program_expression") or 0)
        solver_s += float(st.get("runtime_decision_procedure_s") or 0)
        symex_s += float(st.get("runtime_symex_s") or 0)
        m = meta.describe(hid.split("@")[0])
        harnesses.append(dict(
            harness=hid, verdict=r["status"], wall_s=round((r["duration_ms"] or 0) / 1000.0, 1),
            checks=r["nchecks"], failed_checks=[c.get("description") for c in r["failed"]][:8],
            program_steps=st.get("size_program_expression"), vccs=st.get("vccs_generated"),
            vccs_after_simplification=st.get("vccs_remaining"),
            symex_s=st.get("runtime_symex_s"), solver_s=st.get("runtime_decision_procedure_s"),
            functions_encoded=m.get("fns"), bound=m.get("bound")))
    verified = [h for h in harnesses if h["verdict"] == "Success"]
    samples = []
    for h in harnesses[:: max(1, len(harnesses) // 6)][:8]:
        samples.append(dict(obligation=h["harness"], functions_encoded=h["functions_encoded"], bound=h["bound"],
                            verdict=h["verdict"], vccs=h["vccs"], solver_s=h["solver_s"]))
    for v in violations:
        samples.append(dict(counterexample_replayed=v))
    ev = dict(
        property_id=prop, tier=tier, seed=seed, level="model_checking",
        coverage=dict(
            states=max(1, tot_steps), transitions=max(1, tot_vcc),
            traces_validated_against_impl=replays,
            samples=samples or [dict(note="no harness ran")],
            explanation="Bounded model checking (Kani 0.68 -> CBMC 6.11, CaDiCaL) of the real crates compiled from /repo's working tree. "
                        "states = CBMC program steps (size of program expression) summed over harnesses; transitions = verification conditions generated. "
                        "Each harness verdict holds for EVERY value of its symbolic inputs inside the stated bound and says nothing outside it.",
            obligations=len(harnesses), discharged=len(verified),
            evaluations=len(harnesses), distinct_nontrivial=len(verified),
            rule="one evaluation = one Kani harness (a universally quantified obligation over its symbolic inputs); counted non-trivial when CBMC returned SUCCESSFUL with all unwinding assertions and a satisfied reachability cover",
            harnesses=harnesses, inconclusive=inconclusive,
            known_findings=sorted(set(k["id"] for k, _, _ in knowns)),
            solver_time_s=round(solver_s, 1), symex_time_s=round(symex_s, 1),
            per_harness_timeout_s=h_timeout, parallel_jobs=jobs,
            checker_cmd="cargo kani -Z stubbing -Z unstable-options --harness %s_* -j N --export-json" % prop.lower(),
            trusted_base=["Kani 0.68 MIR->goto translation", "CBMC 6.11 + CaDiCaL", "rustc nightly pinned by Kani", "hand-written reference models in harness/src/ref_*.rs"],
            tools=export_meta.get("tools"),
            outside_the_bound=cfg.get("outside", ""),
        ),
        assumptions=cfg.get("assumptions", []) + meta.COMMON_ASSUMPTIONS,
        wall_s=round(wall, 1), violations=len(violations))
    tmp = evpath + ".tmp"
    json.dump(ev, open(tmp, "w"), indent=1)
    os.replace(tmp, evpath)


def do_replay(prop, path):
    """Replay a stored counterexample natively."""
    src = open(path).read()
    ms = list(PLAYBACK_RE.finditer(src))
    m = ms[0] if ms else None
    hm = re.search(r"Counterexample for harness (\S+)", src)
    if not m or not hm:
        log("not a replay file")
        return 2
    harness = hm.group(1)
    cfg = meta.PROPS[prop]
    if cfg.get("hooks"):
        EXTRA_ENV["RUSTFLAGS"] = "--cfg pilota_verif"
    root, hk = make_scratch(prop, "replay")
    try:
        write_lib_rs(hk, cfg["modules"], bool(cfg.get("gen")))
        logf = os.path.join(root, "replay.log")
        open(logf, "w").close()
        if cfg.get("gen"):
            okg, why = run_generator(root, hk, logf, cfg["gen"])
            if not okg:
                log("BUILD-FAILURE: " + why)
                return 2
        mod = harness.split("::")[0]
        rep, note = run_playback(hk, os.path.join(hk, "src", mod + ".rs"), "".join(x.group(1) for x in ms), "kani_concrete_playback_", logf, harness)
        log("replay of %s: %s (%s)" % (harness, "REPRODUCED" if rep else "not reproduced", note))
        if rep:
            log("VIOLATION property=%s replay=%s" % (prop, path))
            return 1
        return 0 if rep is False else 2
    finally:
        shutil.rmtree(root, ignore_errors=True)


def main():
    ap = argparse.ArgumentParser()
    ap.add_argument("prop")
    ap.add_argument("--tier", default=os.environ.get("VERIF_TIER", "quick"), choices=["quick", "thorough"])
    ap.add_argument("--only", help="harness filter (substring) instead of the tier's set")
    ap.add_argument("--replay")
    ap.add_argument("--keep", action="store_true")
    ap.add_argument("-j", type=int)
    ap.add_argument("--calibrate", action="store_true", help="thorough tier: run all thorough-only harnesses and record the conclusive ones")
    a = ap.parse_args()
    if a.prop not in meta.PROPS:
        log("unknown or not-applicable property " + a.prop)
        return 2
    if a.replay:
        return do_replay(a.prop, a.replay)
    return check(a.prop, a.tier, a.only, a.keep, a.j, a.calibrate)


if __name__ == "__main__":
    sys.exit(main())
