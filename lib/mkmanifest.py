#!/usr/bin/env python3
"""Regenerates /verif/MANIFEST.json from the table below (kept in one place so that the
manifest, DESIGN.md section 0 and lib/meta.py stay consistent)."""
import json, os

V = os.path.dirname(os.path.dirname(os.path.abspath(__file__)))

CLAIMED = {
    "C01": ("For every value of each primitive, every field/collection/map/message header with symbolic ids, sizes and sequence ids, and a set of value-tree shapes with symbolic leaves, on binary, LE, compact and unchecked binary: write then read returns the value, consumes exactly the bytes written, and a following value is read by the same reader as if fresh; LinkedBytes writers emit the bytes of the BytesMut writers; a 4096-byte payload is attached zero-copy.", "§3, §4 C01"),
    "C02": ("For 13 instances of Rust emitted by the current pilota-build for corpus/t_basic.thrift (struct, nested, union, enum, typedef, exception, method args/results, recursive type, IDL defaults): decode(encode(v)) == v for all leaf values on the binary family, with the absent-optional-with-default exception checked against the IDL literals.", "§4 C02"),
    "C03": ("Bytes written equal / are decoded by a reference model written from the Apache binary and compact specifications for every value of every primitive and header; the readers accept the specification's alternative forms; all 256 type bytes are classified as the specification says.", "§4 C03"),
    "C04": ("The length pass (run on a twin protocol object through the same call sequence) equals the number of bytes written, for every value at L0/L1/L2 per protocol and for emitted size() vs encode() of the C02 instances.", "§4 C04"),
    "C05": ("Protobuf runtime codecs on slice buffers: encode/merge round trip, exact consumption and encoded_len == bytes written for all values (varint and key codecs: all values / tags; 13 scalar modules; blobs; packed; decomposed message/group/map/repeated) and the emitted message Small.", "§4 C05/C06"),
    "C06": ("The bytes of every C05 instance equal the reference encoding of the protobuf encoding guide, and a schema-driven reference decoder / encoder pair agrees with the emitted message Small (sint32 ZigZag, fixed32 little-endian), fields in either order.", "§4 C05/C06"),
    "C07": ("skip(T) on writer-produced values of 23 shapes followed by a symbolic tail reports and consumes exactly the value (binary, LE, unchecked; compact primitives); skip_till_depth(T,1) on arbitrary bytes reports exactly what it consumed; one level of the depth budget; Void/Stop are refused.", "§4 C07"),
    "C08": ("Emitted decoders of the reader schema t_evolve_r, fed by the reference encoder under the writer schema t_evolve_w with symbolic payloads: known fields decode identically around one unknown/retyped/added record, defaults and absent optionals, unknown enum number kept, required-absent and the union error cases.", "§4 C08"),
    "C09": ("Every read_* of the binary, LE and compact in-memory readers on arbitrary bytes of symbolic length: no panic, no read past the input, strict prefixes of fixed-width values rejected.", "§4 C09"),
    "C10": ("Protobuf decoders on arbitrary slices: no panic, agreement of decode_varint with a reference decoder, length prefix larger than the input rejected; recursion budget: one inductive step from every u32 budget (hook) for message, group, map entry and unknown groups.", "§4 C10"),
    "C11": ("Unchecked vs checked binary codec on 23 shapes with symbolic leaves: identical bytes into an exact-size buffer with CBMC's object-bounds checks on the unsafe writes, same reported size, same decoded values and consumed bytes, same skip.", "§4 C11"),
    "C13": ("Rust emitted with keep_unknown_fields for corpus/t_unknown.thrift, fed by the reference encoder with one extra field (i32, string, struct or set; symbolic payload) before or after the known field: decode then re-encode equals the reference encoding with the unknown field carried byte for byte, known fields decode as without retention; type used top-level, as a method argument and nested (the nested+argument combination is a recorded known finding).", "§4 C13"),
    "C18": ("Emitted protobuf messages on reference-built concatenations with symbolic payloads: last-wins, repeated accumulation across packed/unpacked records, oneof replacement, field-wise merge of embedded messages, unknown fields of every wire type ignored.", "§4 C18"),
}

NA = {
    "C12": "async readers: one primitive with a symbolic split costs 670-936 s and 10 GB under Kani (re-polled future state machines); nothing beyond single primitives fits, so the property cannot be supported (DESIGN.md §5)",
    "C14": "quantifier over IDL programs with rustc as oracle; the generator (salsa, rayon, file I/O) cannot be executed symbolically (DESIGN.md §5)",
    "C15": "nom parser stacks: no verdict in 13-25 min in any formulation (DESIGN.md §5)",
    "C16": "nom parser stacks: no verdict in 13-25 min in any formulation (DESIGN.md §5)",
    "C17": "quantifies over rayon schedules and per-process hash seeds of the generator; Kani does not model concurrency (DESIGN.md §5)",
    "C19": "needs real drop glue under CBMC's leak check; no verdict in 15-20 min in the design-round probes (DESIGN.md §5)",
    "C20": "a closed term per IDL document, no quantified input left for a solver; the decode-vs-default half is asserted in C02/C08 (DESIGN.md §5)",
}


def main():
    checks = []
    for pid, (text, ref) in CLAIMED.items():
        checks.append(dict(
            property_id=pid,
            quick_cmd="./bin/check %s --tier quick" % pid,
            thorough_cmd="./bin/check %s --tier thorough" % pid,
            evidence_file="/verif/evidence/%s.json" % pid,
            replay_cmd_template="./bin/check %s --replay {path}" % pid,
            engine="kani-cbmc",
            level_claimed=dict(category="model_checking", text="Bounded model checking of the compiled crates. " + text + " Bounded: holds for all values inside the stated bounds only.", design_ref=ref),
            level_note="Trusted: Kani 0.68 MIR->goto translation, CBMC 6.11 + CaDiCaL, the hand-written reference models in harness/src/ref_*.rs, cuts S1-S7 (DESIGN.md §2.2; listed in every evidence file). Inconclusive runs (timeout, memory, unwinding, non-reproducing counterexample) exit 2, never 0.",
            technique="bounded model checking (Kani -> CBMC, SAT) of the real Rust code with symbolic inputs; counterexamples replayed natively via concrete playback"))
    m = dict(
        version=1, setup_cmd="./bin/setup",
        hooks=dict(guard="pilota_verif",
                   enable="RUSTFLAGS=--cfg pilota_verif (set by lib/driver.py for checks whose lib/meta.py entry has hooks=True, i.e. C10)",
                   baseline_off_cmd="cd /repo && (cargo nextest run --workspace --no-fail-fast --tool-config-file pb:/w/lib/nextest.toml --profile pb --test-threads 8 --offline || cargo test --workspace --no-fail-fast --offline)",
                   source_commits=["bbcbe81"], add_only=True),
        engines=[dict(name="kani-cbmc", path="/verif/lib/driver.py", serves_properties=list(CLAIMED),
                      kind_free_text="Kani 0.68 -> CBMC 6.11 bounded model checking of /repo's crates through the harness crate /verif/harness (instantiated per run under /var/tmp/pilota-verif); Rust emitted by the current pilota-build for /verif/corpus is included for C02, C04, C05, C06, C08, C18")],
        checks=checks,
        notes="exit 0 = held on everything decided; 1 = replayed, unlisted violation; 2 = inconclusive / build failure (never reported as holding). Harness tiers are encoded in harness names: cNN_q_* quick+thorough, cNN_t_* thorough only, cNN_x_* not registered.",
        not_applicable=[dict(property_id=k, reason=v) for k, v in NA.items()])
    json.dump(m, open(os.path.join(V, "MANIFEST.json"), "w"), indent=1)


if __name__ == "__main__":
    main()
