namespace rs t_unknown
struct Item {
  1: required i32 id,
  2: optional string name,
}
struct Holder {
  1: Item item,
  2: list<Item> items,
  3: i32 tail,
}
service USvc {
  Item echo(1: Item item),
}
