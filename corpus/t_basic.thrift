namespace rs t_basic

enum Color { RED = 1, GREEN = 2, BLUE = 5 }

struct Inner {
  1: required i32 x,
  2: optional string s,
}

struct Outer {
  1: Inner inner,
  2: i32 after,
  16: bool flag,
}

struct Scalars {
  1: bool b,
  2: i8 i8v,
  3: i16 i16v,
  4: required i32 i32v,
  5: i64 i64v,
  6: double d,
  7: string s,
  8: binary bin,
  9: optional i32 oi,
  10: Color color,
}

struct Lists {
  1: list<i32> li,
  2: optional list<string> ls,
  3: list<Inner> lin,
}

struct Maps {
  1: map<i32, string> m (pilota.rust_type = "btree"),
  2: set<i32> st (pilota.rust_type = "btree"),
}

union U {
  1: i32 a,
  2: string b,
  3: Inner c,
}

struct Defaults {
  1: i32 a = 7,
  2: optional i32 b = 9,
  3: string s = "hi",
  4: bool t = true,
  5: Color c = Color.GREEN,
  6: optional double d = 2,
}

struct Tree {
  1: optional Tree left,
  2: i32 v,
}

typedef i64 Id
typedef Color Paint
typedef Id AccountId

struct Aliases {
  1: required Paint paint,
  2: optional AccountId account,
  3: i32 plain,
}

exception Oops {
  1: string why,
  2: Id id,
}

service Svc {
  Inner get(1: Id id, 2: Inner hint) throws (1: Oops oops),
  void ping(),
}
