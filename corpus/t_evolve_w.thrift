namespace rs t_evolve_w
// writer-side schema: what the peer sends
enum Kind { A = 1, B = 2, C = 9 }
struct Extra { 1: i8 z }
struct Rec {
  1: required i32 id,
  2: optional string name,
  3: i64 added_i64,
  4: string added_str,
  5: Extra added_struct,
  6: list<i32> added_list,
  7: i32 retyped,
  8: Kind kind,
}
union Choice {
  1: i32 a,
  2: string b,
  3: i64 c_new,
}
