namespace rs t_evolve_r
// reader-side (local) schema
enum Kind { A = 1, B = 2 }
struct Rec {
  1: required i32 id,
  2: optional string name,
  7: string retyped,
  8: Kind kind,
  9: optional i16 missing_opt,
  10: i32 missing_default = 5,
}
union Choice {
  1: i32 a,
  2: string b,
}
