use std::path::PathBuf;
fn main() {
    let args: Vec<String> = std::env::args().collect();
    let src = PathBuf::from(&args[1]);
    let out = PathBuf::from(&args[2]);
    let keep = args.get(3).map(|s| s == "keep").unwrap_or(false);
    if src.extension().map(|e| e == "proto").unwrap_or(false) {
        pilota_build::Builder::protobuf().ignore_unused(false)
            .include_dirs(vec![src.parent().unwrap().to_path_buf()])
            .compile_with_config(vec![pilota_build::IdlService::from_path(src.clone())], pilota_build::Output::File(out));
        return;
    }
    let mut b = pilota_build::Builder::thrift().ignore_unused(false);
    if keep { b = b.keep_unknown_fields(vec![src.clone()]); }
    b.include_dirs(vec![src.parent().unwrap().to_path_buf()])
     .compile_with_config(vec![pilota_build::IdlService::from_path(src.clone())], pilota_build::Output::File(out));
}
