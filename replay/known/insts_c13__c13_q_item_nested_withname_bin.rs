// Counterexample for harness insts_c13::c13_q_item_nested_withname_bin (property C13), produced by CBMC via Kani concrete playback.
// Replay: ./bin/check C13 --replay /verif/replay/C13/insts_c13__c13_q_item_nested_withname_bin.rs   (appends this test to harness/src/insts_c13.rs in a scratch
// crate and runs `cargo kani playback` natively against /repo, without any stub).
/// Test generated for harness `insts_c13::c13_q_item_nested_withname_bin` 
///
/// Check for `assertion`: "C13: retention never changes how known fields decode (field after a nested retained type)"
///
/// # Warning
///
/// Concrete playback tests combined with stubs or contracts is highly
/// experimental, and subject to change.
///
/// The original harness has stubs which are not applied to this test.
/// This may cause a mismatch of non-deterministic values if the stub
/// creates any non-deterministic value.
/// The execution path may also differ, which can be used to refine the stub
/// logic.

#[test]
fn kani_concrete_playback_c13_q_item_nested_withname_bin_15516066008864101148() {
    let concrete_vals: Vec<Vec<u8>> = vec![
        // 0
        vec![0, 0, 0, 0],
        // 0
        vec![0],
    ];
    kani::concrete_playback_run(concrete_vals, c13_q_item_nested_withname_bin);
}
