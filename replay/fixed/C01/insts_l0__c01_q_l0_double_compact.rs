// Counterexample for harness insts_l0::c01_q_l0_double_compact (property C01), produced by CBMC via Kani concrete playback.
// Replay: ./bin/check C01 --replay /verif/replay/C01/insts_l0__c01_q_l0_double_compact.rs   (appends this test to harness/src/insts_l0.rs in a scratch
// crate and runs `cargo kani playback` natively against /repo, without any stub).
/// Test generated for harness `insts_l0::c01_q_l0_double_compact` 
///
/// Check for `assertion`: "C01: value read back equals value written"
///
/// # Warning
///
/// Concrete playback tests combined with stubs or contracts is highly
/// experimental, and subject to change.
///
/// The original harness has stubs which are not applied to this test.
/// This may cause a mismatch of non-deterministic values if the stub
/// creates any non-deterministic value.
/// The execution path may also differ, which can be used to refine the stub
/// logic.

#[test]
fn kani_concrete_playback_c01_q_l0_double_compact_11683571882379394457() {
    let concrete_vals: Vec<Vec<u8>> = vec![
        // 9223372036854775808ul
        vec![0, 0, 0, 0, 0, 0, 0, 128],
        // 0
        vec![0],
        // 0
        vec![0],
    ];
    kani::concrete_playback_run(concrete_vals, c01_q_l0_double_compact);
}
