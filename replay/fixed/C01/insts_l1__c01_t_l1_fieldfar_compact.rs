// Counterexample for harness insts_l1::c01_t_l1_fieldfar_compact (property C01), produced by CBMC via Kani concrete playback.
// Replay: ./bin/check C01 --replay /verif/replay/C01/insts_l1__c01_t_l1_fieldfar_compact.rs   (appends this test to harness/src/insts_l1.rs in a scratch
// crate and runs `cargo kani playback` natively against /repo, without any stub).
/// Test generated for harness `insts_l1::c01_t_l1_fieldfar_compact` 
///
/// Check for `assertion`: "attempt to subtract with overflow"
///
/// # Warning
///
/// Concrete playback tests combined with stubs or contracts is highly
/// experimental, and subject to change.
///
/// The original harness has stubs which are not applied to this test.
/// This may cause a mismatch of non-deterministic values if the stub
/// creates any non-deterministic value.
/// The execution path may also differ, which can be used to refine the stub
/// logic.

#[test]
fn kani_concrete_playback_c01_t_l1_fieldfar_compact_14235350831959279352() {
    let concrete_vals: Vec<Vec<u8>> = vec![
        // 7
        vec![7, 0],
        // -32765
        vec![3, 128],
    ];
    kani::concrete_playback_run(concrete_vals, c01_t_l1_fieldfar_compact);
}
