// Counterexample for harness insts_c07::c07_q_written_v_i32_compact (property C07), produced by CBMC via Kani concrete playback.
// Replay: ./bin/check C07 --replay /verif/replay/C07/insts_c07__c07_q_written_v_i32_compact.rs   (appends this test to harness/src/insts_c07.rs in a scratch
// crate and runs `cargo kani playback` natively against /repo, without any stub).
/// Test generated for harness `insts_c07::c07_q_written_v_i32_compact` 
///
/// Check for `assertion`: "C07: skip reports the number of bytes of the value"
///
/// # Warning
///
/// Concrete playback tests combined with stubs or contracts is highly
/// experimental, and subject to change.
///
/// The original harness has stubs which are not applied to this test.
/// This may cause a mismatch of non-deterministic values if the stub
/// creates any non-deterministic value.
/// The execution path may also differ, which can be used to refine the stub
/// logic.

#[test]
fn kani_concrete_playback_c07_q_written_v_i32_compact_16859680261322617873() {
    let concrete_vals: Vec<Vec<u8>> = vec![
        // 1
        vec![1, 0],
        // 1
        vec![1],
        // 1
        vec![1],
        // -1
        vec![255],
        // -1
        vec![255],
        // -1
        vec![255, 255],
        // -7999
        vec![193, 224, 255, 255],
        // -1
        vec![255, 255, 255, 255],
        // -1
        vec![255, 255, 255, 255, 255, 255, 255, 255],
        // 18446744073709551615ul
        vec![255, 255, 255, 255, 255, 255, 255, 255],
        // 255
        vec![255],
        // 255
        vec![255],
        // 255
        vec![255],
        // 255
        vec![255],
        // 255
        vec![255],
        // 255
        vec![255],
        // 255
        vec![255],
        // 255
        vec![255],
        // 255
        vec![255],
        // 255
        vec![255],
        // 255
        vec![255],
        // 255
        vec![255],
        // 255
        vec![255],
        // 255
        vec![255],
        // 255
        vec![255],
        // 255
        vec![255],
        // 255
        vec![255],
        // 255
        vec![255],
        // 125
        vec![125],
        // 253
        vec![253],
    ];
    kani::concrete_playback_run(concrete_vals, c07_q_written_v_i32_compact);
}
