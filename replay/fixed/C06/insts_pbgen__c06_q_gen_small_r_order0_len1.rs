// Counterexample for harness insts_pbgen::c06_q_gen_small_r_order0_len1 (property C06), produced by CBMC via Kani concrete playback.
// Replay: ./bin/check C06 --replay /verif/replay/C06/insts_pbgen__c06_q_gen_small_r_order0_len1.rs   (appends this test to harness/src/insts_pbgen.rs in a scratch
// crate and runs `cargo kani playback` natively against /repo, without any stub).
/// Test generated for harness `insts_pbgen::c06_q_gen_small_r_order0_len1` 
///
/// Check for `assertion`: "C06: sint32 field decodes from its ZigZag varint"
///
/// # Warning
///
/// Concrete playback tests combined with stubs or contracts is highly
/// experimental, and subject to change.
///
/// The original harness has stubs which are not applied to this test.
/// This may cause a mismatch of non-deterministic values if the stub
/// creates any non-deterministic value.
/// The execution path may also differ, which can be used to refine the stub
/// logic.

#[test]
fn kani_concrete_playback_c06_q_gen_small_r_order0_len1_4385088584052170349() {
    let concrete_vals: Vec<Vec<u8>> = vec![
        // 0
        vec![0],
        // 0
        vec![0],
        // 0
        vec![0],
        // 0
        vec![0],
        // 64
        vec![64],
    ];
    kani::concrete_playback_run(concrete_vals, c06_q_gen_small_r_order0_len1);
}
