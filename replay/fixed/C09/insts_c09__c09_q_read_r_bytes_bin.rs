// Counterexample for harness insts_c09::c09_q_read_r_bytes_bin (property C09), produced by CBMC via Kani concrete playback.
// Replay: ./bin/check C09 --replay /verif/replay/C09/insts_c09__c09_q_read_r_bytes_bin.rs   (appends this test to harness/src/insts_c09.rs in a scratch
// crate and runs `cargo kani playback` natively against /repo, without any stub).
/// Test generated for harness `insts_c09::c09_q_read_r_bytes_bin` 
///
/// Check for `assertion`: "This is a placeholder message; Kani doesn't support message formatted at runtime"
///
/// # Warning
///
/// Concrete playback tests combined with stubs or contracts is highly
/// experimental, and subject to change.
///
/// The original harness has stubs which are not applied to this test.
/// This may cause a mismatch of non-deterministic values if the stub
/// creates any non-deterministic value.
/// The execution path may also differ, which can be used to refine the stub
/// logic.

#[test]
fn kani_concrete_playback_c09_q_read_r_bytes_bin_10098916760129149072() {
    let concrete_vals: Vec<Vec<u8>> = vec![
        // 0
        vec![0],
        // 0
        vec![0],
        // 0
        vec![0],
        // 5
        vec![5],
        // 5
        vec![5],
        // 5
        vec![5],
        // 5
        vec![5],
        // 5
        vec![5],
        // 8ul
        vec![8, 0, 0, 0, 0, 0, 0, 0],
    ];
    kani::concrete_playback_run(concrete_vals, c09_q_read_r_bytes_bin);
}
