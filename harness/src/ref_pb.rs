//! Reference model of the protobuf wire format (filled in with C05/C06).
