//! Reference model of the protobuf wire format, written from the encoding guide
//! (protobuf.dev/programming-guides/encoding), not from pilota. Allocation-free.
#![allow(unused)]
pub use crate::ref_thrift::{varint, varint_decode, varint_len, Out};

pub const WT_VARINT: u8 = 0;
pub const WT_I64: u8 = 1;
pub const WT_LEN: u8 = 2;
pub const WT_SGROUP: u8 = 3;
pub const WT_EGROUP: u8 = 4;
pub const WT_I32: u8 = 5;

/// key = (field_number << 3) | wire_type, as a varint
pub fn key<const N: usize>(o: &mut Out<N>, tag: u32, wt: u8) {
    varint(o, ((tag as u64) << 3) | wt as u64)
}
pub fn key_len(tag: u32) -> usize {
    varint_len((tag as u64) << 3)
}
/// sintN: ZigZag, (n << 1) ^ (n >> N-1)
pub fn zigzag32(n: i32) -> u64 {
    (((n as u32) << 1) ^ ((n >> 31) as u32)) as u64
}
pub fn zigzag64(n: i64) -> u64 {
    ((n as u64) << 1) ^ ((n >> 63) as u64)
}
pub fn unzigzag32(u: u32) -> i32 {
    ((u >> 1) as i32) ^ -((u & 1) as i32)
}
pub fn unzigzag64(u: u64) -> i64 {
    ((u >> 1) as i64) ^ -((u & 1) as i64)
}
/// int32/int64/enum: two's complement sign-extended to 64 bits, as a varint
pub fn int32_u64(n: i32) -> u64 {
    n as i64 as u64
}
pub fn fixed32<const N: usize>(o: &mut Out<N>, u: u32) {
    o.put(u as u8);
    o.put((u >> 8) as u8);
    o.put((u >> 16) as u8);
    o.put((u >> 24) as u8);
}
pub fn fixed64<const N: usize>(o: &mut Out<N>, u: u64) {
    fixed32(o, u as u32);
    fixed32(o, (u >> 32) as u32);
}
pub fn len_delim<const N: usize>(o: &mut Out<N>, tag: u32, payload: &[u8]) {
    key(o, tag, WT_LEN);
    varint(o, payload.len() as u64);
    o.put_all(payload);
}

/// Reference reader over a byte slice.
pub struct Rd<'a> {
    pub s: &'a [u8],
    pub pos: usize,
}
impl<'a> Rd<'a> {
    pub fn new(s: &'a [u8]) -> Self {
        Rd { s, pos: 0 }
    }
    pub fn done(&self) -> bool {
        self.pos >= self.s.len()
    }
    pub fn varint(&mut self) -> Option<u64> {
        let (v, n) = varint_decode(&self.s[self.pos..], 10)?;
        self.pos += n;
        Some(v)
    }
    /// (field number, wire type)
    pub fn key(&mut self) -> Option<(u32, u8)> {
        let k = self.varint()?;
        if k > u32::MAX as u64 {
            return None;
        }
        Some(((k >> 3) as u32, (k & 7) as u8))
    }
    pub fn fixed32(&mut self) -> Option<u32> {
        if self.pos + 4 > self.s.len() {
            return None;
        }
        let p = self.pos;
        self.pos += 4;
        Some(u32::from_le_bytes([self.s[p], self.s[p + 1], self.s[p + 2], self.s[p + 3]]))
    }
    pub fn fixed64(&mut self) -> Option<u64> {
        let lo = self.fixed32()? as u64;
        let hi = self.fixed32()? as u64;
        Some(lo | (hi << 32))
    }
    /// length-delimited payload: returns (start, len)
    pub fn len_delim(&mut self) -> Option<(usize, usize)> {
        let l = self.varint()? as usize;
        if self.pos + l > self.s.len() {
            return None;
        }
        let st = self.pos;
        self.pos += l;
        Some((st, l))
    }
}

#[cfg(test)]
mod tests {
    use super::*;
    #[test]
    fn guide_vectors() {
        // encoding guide: field 1 varint 150 -> 08 96 01
        let mut o = Out::<16>::new();
        key(&mut o, 1, WT_VARINT);
        varint(&mut o, 150);
        assert_eq!(&o.b[..o.n], &[0x08, 0x96, 0x01]);
        // field 2 string "testing" -> 12 07 74 65 73 74 69 6e 67
        let mut o = Out::<16>::new();
        len_delim(&mut o, 2, b"testing");
        assert_eq!(&o.b[..o.n], &[0x12, 0x07, 0x74, 0x65, 0x73, 0x74, 0x69, 0x6e, 0x67]);
        // zigzag table from the guide
        assert_eq!(zigzag32(0), 0);
        assert_eq!(zigzag32(-1), 1);
        assert_eq!(zigzag32(1), 2);
        assert_eq!(zigzag32(-2), 3);
        assert_eq!(zigzag32(0x7fffffff), 0xfffffffe);
        assert_eq!(zigzag32(-0x80000000), 0xffffffff);
        assert_eq!(zigzag64(i64::MIN), u64::MAX);
        assert_eq!(unzigzag32(zigzag32(-77) as u32), -77);
        assert_eq!(unzigzag64(zigzag64(-77)), -77);
        // int32 -2 is ten bytes: fe ff ff ff ff ff ff ff ff 01
        let mut o = Out::<16>::new();
        varint(&mut o, int32_u64(-2));
        assert_eq!(&o.b[..o.n], &[0xfe, 0xff, 0xff, 0xff, 0xff, 0xff, 0xff, 0xff, 0xff, 0x01]);
        let mut r = Rd::new(&[0x08, 0x96, 0x01, 0x15, 1, 0, 0, 0]);
        assert_eq!(r.key(), Some((1, 0)));
        assert_eq!(r.varint(), Some(150));
        assert_eq!(r.key(), Some((2, 5)));
        assert_eq!(r.fixed32(), Some(1));
        assert!(r.done());
    }
}
