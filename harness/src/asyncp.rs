//! C12 (partial): asynchronous readers vs. the in-memory readers on the same bytes, with the
//! delivery schedule as DATA: a scripted AsyncRead hands out the message in two chunks split at
//! a concrete offset (one instance per offset) and optionally returns Pending in between; a
//! single-thread block_on with a no-op waker polls a bounded number of times. The real
//! tokio::io::AsyncReadExt futures are part of the goto program.
#![allow(unused)]
use crate::common::*;
use crate::protos::*;
use pilota::thrift::{binary::TAsyncBinaryProtocol, compact::TAsyncCompactProtocol, TAsyncInputProtocol};
use std::{
    future::Future,
    pin::Pin,
    task::{Context, Poll, RawWaker, RawWakerVTable, Waker},
};

pub struct Script {
    pub data: &'static [u8],
    pub pos: usize,
    pub split: usize,
    pub pend_after_split: bool,
    pub pending_now: bool,
}
impl tokio::io::AsyncRead for Script {
    fn poll_read(mut self: Pin<&mut Self>, _cx: &mut Context<'_>, buf: &mut tokio::io::ReadBuf<'_>) -> Poll<std::io::Result<()>> {
        if self.pending_now {
            self.pending_now = false;
            return Poll::Pending;
        }
        let rem = self.data.len() - self.pos;
        let mut n = rem.min(buf.remaining());
        if self.pos < self.split {
            // first chunk ends at the split point
            n = n.min(self.split - self.pos);
            if self.pos + n == self.split && self.pend_after_split {
                self.pending_now = true;
            }
        }
        let s = self.pos;
        buf.put_slice(&self.data[s..s + n]);
        self.pos += n;
        Poll::Ready(Ok(()))
    }
}
fn noop_waker() -> Waker {
    fn clone(_: *const ()) -> RawWaker {
        RawWaker::new(core::ptr::null(), &VT)
    }
    fn noop(_: *const ()) {}
    static VT: RawWakerVTable = RawWakerVTable::new(clone, noop, noop, noop);
    unsafe { Waker::from_raw(RawWaker::new(core::ptr::null(), &VT)) }
}
pub fn block_on<F: Future>(mut f: Pin<&mut F>, max_polls: usize) -> Option<F::Output> {
    let w = noop_waker();
    let mut cx = Context::from_waker(&w);
    let mut i = 0;
    while i < max_polls {
        if let Poll::Ready(v) = f.as_mut().poll(&mut cx) {
            return Some(v);
        }
        i += 1;
    }
    None
}

pub const A_I32: u8 = 0;
pub const A_I64: u8 = 1;
pub const A_STRING2: u8 = 2;
pub const A_BYTES2: u8 = 3;
pub const A_FIELD: u8 = 4;
pub const A_I16: u8 = 5;
pub const A_BOOL: u8 = 6;

/// binary async reader: value bytes (symbolic payload) + 2-byte tail, split at SPLIT
#[cfg(kani)]
pub fn async_binary<const API: u8, const SPLIT: usize, const PEND: bool>() {
    let p: [u8; 8] = kani::any();
    let mut data = [0u8; 12];
    let vlen: usize = match API {
        A_I32 => { data[..4].copy_from_slice(&p[..4]); 4 }
        A_I64 => { data[..8].copy_from_slice(&p); 8 }
        A_I16 => { data[..2].copy_from_slice(&p[..2]); 2 }
        A_BOOL => { data[0] = p[0]; 1 }
        A_STRING2 | A_BYTES2 => { kani::assume(p[0] < 0x80 && p[1] < 0x80); data[3] = 2; data[4] = p[0]; data[5] = p[1]; 6 }
        _ => { data[0] = 8; data[1] = p[0]; data[2] = p[1]; 3 } // field header: I32, id symbolic
    };
    data[vlen] = 0xAA;
    data[vlen + 1] = 0xBB;
    let leaked: &'static [u8; 12] = Box::leak(Box::new(data));
    let mut s = Script { data: &leaked[..], pos: 0, split: SPLIT, pend_after_split: PEND, pending_now: false };
    let mut sync_buf = Bytes::from_static(&leaked[..]);
    let mut sr = PBin::reader(&mut sync_buf);
    {
        let mut prot = TAsyncBinaryProtocol::new(&mut s);
        match API {
            A_I32 => {
                let mut fut = Box::pin(prot.read_i32());
                let got = block_on(fut.as_mut(), 6);
                let want = ok(sr.read_i32());
                match got { Some(Ok(v)) => kani::assert(v == want, "C12: async read equals in-memory read"), _ => kani::assert(false, "C12: async read completes with a value when the in-memory read does") }
                core::mem::forget(fut);
            }
            A_I64 => {
                let mut fut = Box::pin(prot.read_i64());
                let got = block_on(fut.as_mut(), 6);
                let want = ok(sr.read_i64());
                match got { Some(Ok(v)) => kani::assert(v == want, "C12: async read equals in-memory read"), _ => kani::assert(false, "C12: async read completes with a value when the in-memory read does") }
                core::mem::forget(fut);
            }
            A_I16 => {
                let mut fut = Box::pin(prot.read_i16());
                let got = block_on(fut.as_mut(), 6);
                let want = ok(sr.read_i16());
                match got { Some(Ok(v)) => kani::assert(v == want, "C12: async read equals in-memory read"), _ => kani::assert(false, "C12: async read completes with a value when the in-memory read does") }
                core::mem::forget(fut);
            }
            A_BOOL => {
                let mut fut = Box::pin(prot.read_bool());
                let got = block_on(fut.as_mut(), 6);
                let want = ok(sr.read_bool());
                match got { Some(Ok(v)) => kani::assert(v == want, "C12: async read equals in-memory read"), _ => kani::assert(false, "C12: async read completes with a value when the in-memory read does") }
                core::mem::forget(fut);
            }
            A_STRING2 => {
                let mut fut = Box::pin(prot.read_string());
                let got = block_on(fut.as_mut(), 8);
                match &got { Some(Ok(v)) => kani::assert(v.len() == 2 && v.as_bytes()[0] == p[0] && v.as_bytes()[1] == p[1], "C12: async read equals in-memory read"), _ => kani::assert(false, "C12: async read completes with a value when the in-memory read does") }
                core::mem::forget(got);
                core::mem::forget(fut);
            }
            A_BYTES2 => {
                let mut fut = Box::pin(prot.read_bytes());
                let got = block_on(fut.as_mut(), 8);
                match &got { Some(Ok(v)) => kani::assert(v.len() == 2 && v[0] == p[0] && v[1] == p[1], "C12: async read equals in-memory read"), _ => kani::assert(false, "C12: async read completes with a value when the in-memory read does") }
                core::mem::forget(got);
                core::mem::forget(fut);
            }
            _ => {
                let mut fut = Box::pin(prot.read_field_begin());
                let got = block_on(fut.as_mut(), 8);
                let want = ok(sr.read_field_begin());
                match &got { Some(Ok(v)) => kani::assert(v.field_type == want.field_type && v.id == want.id, "C12: async read equals in-memory read"), _ => kani::assert(false, "C12: async read completes with a value when the in-memory read does") }
                core::mem::forget(got);
                core::mem::forget(fut);
            }
        }
        core::mem::forget(prot);
    }
    kani::assert(s.pos == vlen, "C12: the asynchronous reader never reads past the end of the value");
    kani::cover!(true, "reached end");
    core::mem::forget(sr);
    core::mem::forget(sync_buf);
}
