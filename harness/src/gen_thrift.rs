//! Rust emitted by the CURRENT pilota-build for the corpus (written by the driver into src/gen/).
#![allow(warnings, clippy::all)]
pub mod basic {
    include!("gen/t_basic.rs");
}
pub use basic::t_basic::t_basic as tb;
pub mod evolve_r {
    include!("gen/t_evolve_r.rs");
}
pub use evolve_r::t_evolve_r::t_evolve_r as er;
pub mod unknown {
    include!("gen/t_unknown.rs");
}
pub use unknown::t_unknown::t_unknown as tu;
