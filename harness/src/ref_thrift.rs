//! Reference model of the Apache Thrift binary and compact wire formats, written from the
//! protocol specifications (thrift-binary-protocol.md, thrift-compact-protocol.md), not from
//! pilota. Allocation-free: everything is a fixed array plus a length.
//! The little-endian binary variant is pilota-specific; its model is the binary spec with the
//! byte order of every multi-byte integer/double reversed.
#![allow(unused)]

/// Thrift binary protocol type codes (spec table "Struct encoding").
pub mod bt {
    pub const STOP: u8 = 0;
    pub const BOOL: u8 = 2;
    pub const I8: u8 = 3;
    pub const DOUBLE: u8 = 4;
    pub const I16: u8 = 6;
    pub const I32: u8 = 8;
    pub const I64: u8 = 10;
    pub const BINARY: u8 = 11;
    pub const STRUCT: u8 = 12;
    pub const MAP: u8 = 13;
    pub const SET: u8 = 14;
    pub const LIST: u8 = 15;
    pub const UUID: u8 = 16;
    pub fn is_valid(b: u8) -> bool {
        matches!(b, 0 | 2 | 3 | 4 | 6 | 8 | 10 | 11 | 12 | 13 | 14 | 15 | 16)
    }
    /// `Void = 1` is a pilota-internal code that never goes on the wire as a field type.
    pub const ALL_DATA: [u8; 12] = [2, 3, 4, 6, 8, 10, 11, 12, 13, 14, 15, 16];
}

/// Compact protocol type codes.
pub mod ct {
    pub const STOP: u8 = 0;
    pub const BOOL_TRUE: u8 = 1;
    pub const BOOL_FALSE: u8 = 2;
    pub const I8: u8 = 3;
    pub const I16: u8 = 4;
    pub const I32: u8 = 5;
    pub const I64: u8 = 6;
    pub const DOUBLE: u8 = 7;
    pub const BINARY: u8 = 8;
    pub const LIST: u8 = 9;
    pub const SET: u8 = 10;
    pub const MAP: u8 = 11;
    pub const STRUCT: u8 = 12;
    pub const UUID: u8 = 13;
}

/// binary type code -> compact type code (bool maps to BOOL_TRUE in headers of collections)
pub fn compact_of_binary(t: u8) -> u8 {
    match t {
        bt::STOP => ct::STOP,
        bt::BOOL => ct::BOOL_TRUE,
        bt::I8 => ct::I8,
        bt::I16 => ct::I16,
        bt::I32 => ct::I32,
        bt::I64 => ct::I64,
        bt::DOUBLE => ct::DOUBLE,
        bt::BINARY => ct::BINARY,
        bt::LIST => ct::LIST,
        bt::SET => ct::SET,
        bt::MAP => ct::MAP,
        bt::STRUCT => ct::STRUCT,
        bt::UUID => ct::UUID,
        _ => 0xff,
    }
}

#[derive(Clone, Copy)]
pub struct Out<const N: usize> {
    pub b: [u8; N],
    pub n: usize,
}
impl<const N: usize> Out<N> {
    pub fn new() -> Self {
        Out { b: [0; N], n: 0 }
    }
    #[inline]
    pub fn put(&mut self, x: u8) {
        self.b[self.n] = x;
        self.n += 1;
    }
    pub fn put_all(&mut self, xs: &[u8]) {
        let mut i = 0;
        while i < xs.len() {
            self.put(xs[i]);
            i += 1;
        }
    }
    /// Loop-free-ish comparison against a zero-padded array of the same size (N % 16 == 0):
    /// 16 bytes at a time as u128, so that the harness-wide unwind bound does not have to
    /// cover a byte loop over the whole encoding.
    pub fn eq_arr(&self, other: &[u8; N], other_len: usize) -> bool {
        if self.n != other_len {
            return false;
        }
        let mut k = 0;
        let mut same = true;
        while k + 16 <= N {
            let a = u128::from_le_bytes([
                self.b[k], self.b[k + 1], self.b[k + 2], self.b[k + 3], self.b[k + 4], self.b[k + 5], self.b[k + 6], self.b[k + 7],
                self.b[k + 8], self.b[k + 9], self.b[k + 10], self.b[k + 11], self.b[k + 12], self.b[k + 13], self.b[k + 14], self.b[k + 15],
            ]);
            let b = u128::from_le_bytes([
                other[k], other[k + 1], other[k + 2], other[k + 3], other[k + 4], other[k + 5], other[k + 6], other[k + 7],
                other[k + 8], other[k + 9], other[k + 10], other[k + 11], other[k + 12], other[k + 13], other[k + 14], other[k + 15],
            ]);
            same &= a == b;
            k += 16;
        }
        same
    }
    /// Same against a byte slice of at most N bytes (copied into a zero-padded array first).
    pub fn eq_bytes(&self, s: &[u8]) -> bool {
        if s.len() > N {
            return false;
        }
        let mut a = [0u8; N];
        a[..s.len()].copy_from_slice(s);
        self.eq_arr(&a, s.len())
    }
    /// Append a slice whose length may be symbolic (memcpy, no loop).
    pub fn put_sym(&mut self, s: &[u8]) {
        let l = s.len();
        self.b[self.n..self.n + l].copy_from_slice(s);
        self.n += l;
    }
    pub fn eq_slice(&self, s: &[u8]) -> bool {
        if s.len() != self.n {
            return false;
        }
        let mut i = 0;
        while i < self.n {
            if s[i] != self.b[i] {
                return false;
            }
            i += 1;
        }
        true
    }
}

// ---------------------------------------------------------------- binary (big endian)
pub fn bin_i16<const N: usize>(o: &mut Out<N>, v: i16, le: bool) {
    let u = v as u16;
    if le {
        o.put(u as u8);
        o.put((u >> 8) as u8);
    } else {
        o.put((u >> 8) as u8);
        o.put(u as u8);
    }
}
pub fn bin_i32<const N: usize>(o: &mut Out<N>, v: i32, le: bool) {
    let u = v as u32;
    if le {
        o.put(u as u8);
        o.put((u >> 8) as u8);
        o.put((u >> 16) as u8);
        o.put((u >> 24) as u8);
    } else {
        o.put((u >> 24) as u8);
        o.put((u >> 16) as u8);
        o.put((u >> 8) as u8);
        o.put(u as u8);
    }
}
pub fn bin_u64<const N: usize>(o: &mut Out<N>, u: u64, le: bool) {
    if le {
        o.put(u as u8);
        o.put((u >> 8) as u8);
        o.put((u >> 16) as u8);
        o.put((u >> 24) as u8);
        o.put((u >> 32) as u8);
        o.put((u >> 40) as u8);
        o.put((u >> 48) as u8);
        o.put((u >> 56) as u8);
    } else {
        o.put((u >> 56) as u8);
        o.put((u >> 48) as u8);
        o.put((u >> 40) as u8);
        o.put((u >> 32) as u8);
        o.put((u >> 24) as u8);
        o.put((u >> 16) as u8);
        o.put((u >> 8) as u8);
        o.put(u as u8);
    }
}
pub fn bin_i64<const N: usize>(o: &mut Out<N>, v: i64, le: bool) {
    bin_u64(o, v as u64, le)
}
/// double: IEEE-754 bits as a 64-bit integer in protocol byte order
pub fn bin_double<const N: usize>(o: &mut Out<N>, bits: u64, le: bool) {
    bin_u64(o, bits, le)
}
pub fn bin_bool<const N: usize>(o: &mut Out<N>, v: bool) {
    o.put(if v { 1 } else { 0 })
}
pub fn bin_binary<const N: usize>(o: &mut Out<N>, s: &[u8], le: bool) {
    bin_i32(o, s.len() as i32, le);
    o.put_all(s);
}
pub fn bin_field<const N: usize>(o: &mut Out<N>, ty: u8, id: i16, le: bool) {
    o.put(ty);
    bin_i16(o, id, le);
}
pub fn bin_list<const N: usize>(o: &mut Out<N>, ety: u8, size: i32, le: bool) {
    o.put(ety);
    bin_i32(o, size, le);
}
pub fn bin_map<const N: usize>(o: &mut Out<N>, kty: u8, vty: u8, size: i32, le: bool) {
    o.put(kty);
    o.put(vty);
    bin_i32(o, size, le);
}
/// strict message header: i32(0x8001_0000 | type), name, seqid
pub fn bin_msg<const N: usize>(o: &mut Out<N>, mtype: u8, name: &[u8], seq: i32, le: bool) {
    bin_i32(o, (0x8001_0000u32 | mtype as u32) as i32, le);
    bin_binary(o, name, le);
    bin_i32(o, seq, le);
}

// ---------------------------------------------------------------- compact
pub fn zigzag16(v: i16) -> u64 {
    (((v as i32) << 1) ^ ((v as i32) >> 15)) as u32 as u64 & 0xffff
}
pub fn zigzag32(v: i32) -> u64 {
    ((v << 1) ^ (v >> 31)) as u32 as u64
}
pub fn zigzag64(v: i64) -> u64 {
    ((v << 1) ^ (v >> 63)) as u64
}
pub fn unzigzag64(u: u64) -> i64 {
    ((u >> 1) as i64) ^ -((u & 1) as i64)
}
/// ULEB128
pub fn varint<const N: usize>(o: &mut Out<N>, mut u: u64) {
    let mut i = 0;
    while i < 10 {
        let b = (u & 0x7f) as u8;
        u >>= 7;
        if u == 0 {
            o.put(b);
            return;
        }
        o.put(b | 0x80);
        i += 1;
    }
}
pub fn varint_len(mut u: u64) -> usize {
    let mut n = 1;
    let mut i = 0;
    while i < 10 {
        u >>= 7;
        if u == 0 {
            return n;
        }
        n += 1;
        i += 1;
    }
    n
}
pub fn cmp_i16<const N: usize>(o: &mut Out<N>, v: i16) {
    varint(o, zigzag16(v))
}
pub fn cmp_i32<const N: usize>(o: &mut Out<N>, v: i32) {
    varint(o, zigzag32(v))
}
pub fn cmp_i64<const N: usize>(o: &mut Out<N>, v: i64) {
    varint(o, zigzag64(v))
}
/// compact double: 8 bytes little endian (spec: "encoded as 8 bytes, little endian")
pub fn cmp_double<const N: usize>(o: &mut Out<N>, bits: u64) {
    bin_u64(o, bits, true)
}
pub fn cmp_binary<const N: usize>(o: &mut Out<N>, s: &[u8]) {
    varint(o, s.len() as u64);
    o.put_all(s);
}
/// field header; `long` forces the long form even where the delta form is legal
pub fn cmp_field<const N: usize>(o: &mut Out<N>, last_id: i16, id: i16, cty: u8, long: bool) {
    let delta = (id as i32) - (last_id as i32);
    if !long && delta >= 1 && delta <= 15 {
        o.put(((delta as u8) << 4) | cty);
    } else {
        o.put(cty);
        cmp_i16(o, id);
    }
}
/// true iff the short (delta) form is legal for this pair
pub fn cmp_field_short_legal(last_id: i16, id: i16) -> bool {
    let delta = (id as i32) - (last_id as i32);
    delta >= 1 && delta <= 15
}
pub fn cmp_list<const N: usize>(o: &mut Out<N>, cty: u8, size: u32) {
    if size <= 14 {
        o.put(((size as u8) << 4) | cty);
    } else {
        o.put(0xf0 | cty);
        varint(o, size as u64);
    }
}
pub fn cmp_map<const N: usize>(o: &mut Out<N>, kcty: u8, vcty: u8, size: u32) {
    if size == 0 {
        o.put(0);
    } else {
        varint(o, size as u64);
        o.put((kcty << 4) | vcty);
    }
}
/// message header: 0x82, (type<<5)|version 1, varint seqid (as unsigned 32), varint-len name
pub fn cmp_msg<const N: usize>(o: &mut Out<N>, mtype: u8, name: &[u8], seq: i32) {
    o.put(0x82);
    o.put(((mtype & 7) << 5) | 1);
    varint(o, seq as u32 as u64);
    cmp_binary(o, name);
}

// ---------------------------------------------------------------- reference decoders
/// ULEB128 decode of at most `max` bytes; returns (value, bytes consumed) or None
pub fn varint_decode(s: &[u8], max: usize) -> Option<(u64, usize)> {
    let mut v: u64 = 0;
    let mut i = 0;
    while i < max && i < s.len() {
        let b = s[i];
        v |= ((b & 0x7f) as u64) << (7 * i as u32);
        i += 1;
        if b & 0x80 == 0 {
            return Some((v, i));
        }
    }
    None
}

#[cfg(test)]
mod tests {
    use super::*;
    // pilota's own test vectors (pilota/src/thrift/compact.rs tests) pushed through the model.
    #[test]
    fn compact_msg_vectors() {
        // must_write_message_begin_largest_maximum_positive_sequence_number
        let mut o = Out::<32>::new();
        cmp_msg(&mut o, 0x03, b"bar", i32::MAX); // Reply? vector uses TMessageType::Reply = 2 -> see below
        let mut p = Out::<32>::new();
        cmp_msg(&mut p, 0x02, b"bar", i32::MAX);
        assert_eq!(&p.b[..p.n], &[0x82, 0x41, 0xFF, 0xFF, 0xFF, 0xFF, 0x07, 0x03, 0x62, 0x61, 0x72]);
        // must_write_message_begin_positive_sequence_number_0: Call(1) "foo" 431
        let mut q = Out::<32>::new();
        cmp_msg(&mut q, 0x01, b"foo", 431);
        assert_eq!(&q.b[..q.n], &[0x82, 0x21, 0xAF, 0x03, 0x03, 0x66, 0x6F, 0x6F]);
        // negative_sequence_number_0: Exception(3) "foo" i32::MIN ... -431
        let mut r = Out::<32>::new();
        cmp_msg(&mut r, 0x03, b"foo", -431);
        assert_eq!(&r.b[..r.n], &[0x82, 0x61, 0xD1, 0xFC, 0xFF, 0xFF, 0x0F, 0x03, 0x66, 0x6F, 0x6F]);
    }
    #[test]
    fn compact_field_vectors() {
        // must_write_struct_with_delta_fields: ids 0? -> vectors: field I8 id 0 (long), I16 id 5 (delta 5), List id 9 (delta 4)
        let mut o = Out::<32>::new();
        cmp_field(&mut o, 0, 0, ct::I8, false);
        cmp_field(&mut o, 0, 5, ct::I16, false);
        cmp_field(&mut o, 5, 9, ct::LIST, false);
        o.put(0);
        assert_eq!(&o.b[..o.n], &[0x03, 0x00, 0x54, 0x49, 0x00]);
        // must_write_struct_with_long_fields: I32 id 0, I64 id 16 (delta 16), Set id 99
        let mut o = Out::<32>::new();
        cmp_field(&mut o, 0, 0, ct::I32, false);
        cmp_field(&mut o, 0, 16, ct::I64, false);
        cmp_field(&mut o, 16, 99, ct::SET, false);
        o.put(0);
        assert_eq!(&o.b[..o.n], &[0x05, 0x00, 0x06, 0x20, 0x0A, 0xC6, 0x01, 0x00]);
    }
    #[test]
    fn zigzag_vectors() {
        assert_eq!(zigzag64(0), 0);
        assert_eq!(zigzag64(-1), 1);
        assert_eq!(zigzag64(1), 2);
        assert_eq!(zigzag64(i64::MAX), u64::MAX - 1);
        assert_eq!(zigzag64(i64::MIN), u64::MAX);
        assert_eq!(zigzag32(i32::MIN), u32::MAX as u64);
        assert_eq!(zigzag16(i16::MIN), 0xffff);
        assert_eq!(zigzag16(-2), 3);
        assert_eq!(unzigzag64(zigzag64(-12345)), -12345);
        let mut o = Out::<16>::new();
        varint(&mut o, 300);
        assert_eq!(&o.b[..o.n], &[0xAC, 0x02]);
        assert_eq!(varint_decode(&[0xAC, 0x02, 9], 10), Some((300, 2)));
        assert_eq!(varint_len(u64::MAX), 10);
        assert_eq!(varint_len(127), 1);
        assert_eq!(varint_len(128), 2);
    }
    #[test]
    fn binary_vectors() {
        let mut o = Out::<32>::new();
        bin_msg(&mut o, 1, b"ab", 7, false);
        assert_eq!(&o.b[..o.n], &[0x80, 0x01, 0x00, 0x01, 0, 0, 0, 2, b'a', b'b', 0, 0, 0, 7]);
        let mut o = Out::<32>::new();
        bin_field(&mut o, bt::I32, 0x0102, false);
        bin_i32(&mut o, -2, false);
        assert_eq!(&o.b[..o.n], &[8, 1, 2, 0xff, 0xff, 0xff, 0xfe]);
    }
}
