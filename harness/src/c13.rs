//! C13: retained unknown fields survive re-encoding unchanged (keep_unknown_fields).
//! Reader schema corpus/t_unknown.thrift emitted with keep_unknown_fields; inputs are
//! reference-encoded under a writer schema that has one extra field (id 9) of a concrete kind
//! with symbolic payload. decode -> re-encode must carry the extra field byte for byte, and the
//! known fields must decode as without retention.
#![allow(unused)]
use crate::common::*;
use crate::gen_thrift::tu;
use crate::protos::*;
use crate::ref_thrift as rt;

pub const E_I32: u8 = 0;
pub const E_STR2: u8 = 1;
pub const E_STRUCT: u8 = 2;
pub const E_SET: u8 = 3; // set<i8> with 2 elements

fn put_extra<const N: usize>(o: &mut rt::Out<N>, kind: u8, p: &[u8; 4]) {
    match kind {
        E_I32 => {
            rt::bin_field(o, rt::bt::I32, 9, false);
            o.put_all(p);
        }
        E_STR2 => {
            rt::bin_field(o, rt::bt::BINARY, 9, false);
            rt::bin_binary(o, &p[..2], false);
        }
        E_SET => {
            rt::bin_field(o, rt::bt::SET, 9, false);
            rt::bin_list(o, rt::bt::I8, 2, false);
            o.put(p[0]);
            o.put(p[1]);
        }
        _ => {
            rt::bin_field(o, rt::bt::STRUCT, 9, false);
            rt::bin_field(o, rt::bt::I8, 1, false);
            o.put(p[0]);
            o.put(0);
        }
    }
}

/// Item{id} + extra field (name absent): top-level decode, re-encode, compare with the
/// reference encoding of "known fields first, then the unknown field verbatim".
#[cfg(kani)]
pub fn item_toplevel<P: Proto, const KIND: u8, const EXTRA_FIRST: bool>() {
    let id: i32 = kani::any();
    let p: [u8; 4] = kani::any();
    let mut o = rt::Out::<48>::new();
    if EXTRA_FIRST {
        put_extra(&mut o, KIND, &p);
    }
    rt::bin_field(&mut o, rt::bt::I32, 1, false);
    rt::bin_i32(&mut o, id, false);
    if !EXTRA_FIRST {
        put_extra(&mut o, KIND, &p);
    }
    o.put(0);
    let n = o.n;
    let mut b = static_input(o.b);
    b.truncate(n);
    let mut r = P::reader(&mut b);
    let got: tu::Item = ok(Message::decode(&mut r));
    kani::assert(got.id == id && got.name.is_none(), "C13: retention never changes how known fields decode");
    kani::assert(P::remaining(&mut r) == 0, "C13: the whole struct is consumed");
    core::mem::forget(r);
    // re-encode with the checked binary writer
    let mut out = BytesMut::with_capacity(48);
    {
        let mut w = PBin::writer(&mut out);
        ok(got.encode(&mut w));
        PBin::finish(w);
    }
    let mut e = rt::Out::<48>::new();
    rt::bin_field(&mut e, rt::bt::I32, 1, false);
    rt::bin_i32(&mut e, id, false);
    put_extra(&mut e, KIND, &p);
    e.put(0);
    kani::assert(e.eq_bytes(&out[..]), "C13: the re-encoded message carries the unknown field byte for byte");
    kani::cover!(true, "reached end");
    core::mem::forget(got);
    core::mem::forget(out);
    core::mem::forget(b);
}

/// Item as a method argument (USvcEchoArgsRecv): id and name both present, then the extra
/// field - the generator's "all known fields seen: keep the rest wholesale" path.
#[cfg(kani)]
pub fn item_as_argument<P: Proto, const KIND: u8>() {
    let id: i32 = kani::any();
    let p: [u8; 4] = kani::any();
    let nm: [u8; 1] = kani::any();
    kani::assume(nm[0] < 0x80);
    let mut o = rt::Out::<48>::new();
    rt::bin_field(&mut o, rt::bt::STRUCT, 1, false); // args.item
    rt::bin_field(&mut o, rt::bt::I32, 1, false);
    rt::bin_i32(&mut o, id, false);
    rt::bin_field(&mut o, rt::bt::BINARY, 2, false);
    rt::bin_binary(&mut o, &nm, false);
    put_extra(&mut o, KIND, &p);
    o.put(0); // item stop
    o.put(0); // args stop
    let n = o.n;
    let mut b = static_input(o.b);
    b.truncate(n);
    let mut r = P::reader(&mut b);
    let got: tu::USvcEchoArgsRecv = ok(Message::decode(&mut r));
    kani::assert(got.item.id == id, "C13: retention never changes how known fields decode");
    kani::assert(got.item.name.as_deref().map(|s| s.as_bytes()) == Some(&nm[..]), "C13: known optional field decodes");
    // (not asserted: full consumption - C13 does not state it. Observation: on this path the
    // argument struct's own stop byte is left unread, see DESIGN.md §6.)
    core::mem::forget(r);
    let mut out = BytesMut::with_capacity(48);
    {
        let mut w = PBin::writer(&mut out);
        ok(got.item.encode(&mut w));
        PBin::finish(w);
    }
    let mut e = rt::Out::<48>::new();
    rt::bin_field(&mut e, rt::bt::I32, 1, false);
    rt::bin_i32(&mut e, id, false);
    rt::bin_field(&mut e, rt::bt::BINARY, 2, false);
    rt::bin_binary(&mut e, &nm, false);
    put_extra(&mut e, KIND, &p);
    e.put(0);
    kani::assert(e.eq_bytes(&out[..]), "C13: the re-encoded argument carries the unknown field byte for byte");
    kani::cover!(true, "reached end");
    core::mem::forget(got);
    core::mem::forget(out);
    core::mem::forget(b);
}

/// The same type nested inside another struct (Holder.item followed by Holder.tail): the
/// property says retention works "wherever the type is used".
#[cfg(kani)]
pub fn item_nested<P: Proto, const WITH_NAME: bool>() {
    let id: i32 = kani::any();
    // concrete sibling value: if the nested decode swallows part of the enclosing struct, the
    // outer loop reads one of these bytes as a field TYPE; a symbolic type byte there makes every
    // decoder arm feasible (no verdict in 420 s). Low byte 0 = it is then taken for a stop.
    let tail: i32 = 0x0A0B_0C00;
    let nm: [u8; 1] = kani::any();
    kani::assume(nm[0] < 0x80);
    let mut o = rt::Out::<48>::new();
    rt::bin_field(&mut o, rt::bt::STRUCT, 1, false); // holder.item
    rt::bin_field(&mut o, rt::bt::I32, 1, false);
    rt::bin_i32(&mut o, id, false);
    if WITH_NAME {
        rt::bin_field(&mut o, rt::bt::BINARY, 2, false);
        rt::bin_binary(&mut o, &nm, false);
    }
    o.put(0); // item stop
    rt::bin_field(&mut o, rt::bt::I32, 3, false); // holder.tail
    rt::bin_i32(&mut o, tail, false);
    o.put(0); // holder stop
    let n = o.n;
    let mut b = static_input(o.b);
    b.truncate(n);
    let mut r = P::reader(&mut b);
    let res: Result<tu::Holder, _> = Message::decode(&mut r);
    match &res {
        Ok(h) => {
            kani::assert(h.tail == Some(tail), "C13: retention never changes how known fields decode (field after a nested retained type)");
            match &h.item {
                Some(it) => kani::assert(it.id == id, "C13: nested known field decodes"),
                None => kani::assert(false, "C13: nested struct present"),
            }
        }
        Err(_) => kani::assert(false, "C13: a well-formed message decodes with retention enabled"),
    }
    kani::cover!(true, "reached end");
    core::mem::forget(res);
    core::mem::forget(r);
    core::mem::forget(b);
}
