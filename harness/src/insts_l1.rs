//! Harness instances of layer L1 (names: c<prop>_<tier>_<body>_<protocol>).
#![allow(unused)]
use crate::l0::{C01, C03, C04};
use crate::l1;
use crate::protos::*;
use paste::paste;

macro_rules! inst3 {
    ($tier:ident, $name:ident, $unw:expr, $($call:tt)*) => { paste! {
        crate::proof!{ #[kani::unwind($unw)] fn [<c01_ $tier _ $name>]() { $($call)*::<{C01}>() } }
        // C03 compares against the reference model with a byte loop over <= 17 bytes
        crate::proof!{ #[kani::unwind(18)] fn [<c03_ $tier _ $name>]() { $($call)*::<{C03}>() } }
        crate::proof!{ #[kani::unwind($unw)] fn [<c04_ $tier _ $name>]() { $($call)*::<{C04}>() } }
    }};
}
// thin adapters so that WHICH is the last const parameter
macro_rules! adapters {
    ($p:ty, $pn:ident) => { paste! {
        pub fn [<field_prev_ $pn>]<const W: u8>() { l1::l1_field::<$p, W, true, 8>() }
        pub fn [<field_prev_struct_ $pn>]<const W: u8>() { l1::l1_field::<$p, W, true, 12>() }
        pub fn [<field_first_ $pn>]<const W: u8>() { l1::l1_field::<$p, W, false, 11>() }
        pub fn [<boolfield_ $pn>]<const W: u8>() { l1::l1_bool_field::<$p, W>() }
        pub fn [<fieldfar_ $pn>]<const W: u8>() { l1::l1_field_far::<$p, W>() }
        pub fn [<list_ $pn>]<const W: u8>() { l1::l1_collection::<$p, W, {l1::K_LIST}, 8>() }
        pub fn [<list_bool_ $pn>]<const W: u8>() { l1::l1_collection::<$p, W, {l1::K_LIST}, 2>() }
        pub fn [<set_ $pn>]<const W: u8>() { l1::l1_collection::<$p, W, {l1::K_SET}, 11>() }
        pub fn [<map_ $pn>]<const W: u8>() { l1::l1_map::<$p, W, 8, 11>() }
        pub fn [<map_struct_ $pn>]<const W: u8>() { l1::l1_map::<$p, W, 16, 12>() }
        pub fn [<msg0_reply_ $pn>]<const W: u8>() { l1::l1_message::<$p, W, 0, 2>() }
        pub fn [<msg1_exception_ $pn>]<const W: u8>() { l1::l1_message::<$p, W, 1, 3>() }
        pub fn [<msg1_oneway_ $pn>]<const W: u8>() { l1::l1_message::<$p, W, 1, 4>() }
        pub fn [<msg2_call_ $pn>]<const W: u8>() { l1::l1_message::<$p, W, 2, 1>() }
    }};
}
#[cfg(kani)]
mod a {
    use super::*;
    adapters!(PBin, bin);
    adapters!(PLe, le);
    adapters!(PUnchecked, unchecked);
    adapters!(PCompact, compact);
}
macro_rules! inst2 {
    ($tier:ident, $name:ident, $unw:expr, $($call:tt)*) => { paste! {
        crate::proof!{ #[kani::unwind($unw)] fn [<c01_ $tier _ $name>]() { $($call)*::<{C01}>() } }
        crate::proof!{ #[kani::unwind($unw)] fn [<c04_ $tier _ $name>]() { $($call)*::<{C04}>() } }
    }};
}
macro_rules! l1_all {
    ($tier_bin:ident, $tier_cmp:ident, $body:ident, $unw_bin:expr, $unw_cmp:expr) => { paste! {
        inst3!($tier_bin, [<l1_ $body _bin>], $unw_bin, a::[<$body _bin>]);
        inst2!($tier_bin, [<l1_ $body _le>], $unw_bin, a::[<$body _le>]);
        inst3!($tier_bin, [<l1_ $body _unchecked>], $unw_bin, a::[<$body _unchecked>]);
        inst3!($tier_cmp, [<l1_ $body _compact>], $unw_cmp, a::[<$body _compact>]);
    }};
}
l1_all!(q, q, field_prev, 4, 5);
l1_all!(t, t, field_prev_struct, 4, 5);
l1_all!(t, q, field_first, 4, 5);
l1_all!(q, t, boolfield, 4, 5);
l1_all!(t, t, fieldfar, 4, 5);
l1_all!(q, q, list, 5, 7);
l1_all!(t, t, list_bool, 5, 7);
l1_all!(t, t, set, 5, 7);
l1_all!(q, q, map, 5, 7);
l1_all!(t, t, map_struct, 5, 7);
macro_rules! l1_bin_family {
    ($tier:ident, $body:ident, $unw:expr) => { paste! {
        inst3!($tier, [<l1_ $body _bin>], $unw, a::[<$body _bin>]);
        inst2!($tier, [<l1_ $body _le>], $unw, a::[<$body _le>]);
        inst3!($tier, [<l1_ $body _unchecked>], $unw, a::[<$body _unchecked>]);
    }};
}
l1_bin_family!(t, msg0_reply, 5);
l1_bin_family!(t, msg1_exception, 5);
l1_bin_family!(t, msg1_oneway, 5);
l1_bin_family!(q, msg2_call, 5);
// compact message envelope: decomposed (see l1::l1_cmsg_write)
#[cfg(kani)]
mod cm {
    use super::*;
    pub fn w2_call<const W: u8>() { l1::l1_cmsg_write::<W, 2, 1>() }
    pub fn w0_reply<const W: u8>() { l1::l1_cmsg_write::<W, 0, 2>() }
    pub fn w1_exception<const W: u8>() { l1::l1_cmsg_write::<W, 1, 3>() }
    pub fn w1_oneway<const W: u8>() { l1::l1_cmsg_write::<W, 1, 4>() }
}
inst3!(q, l1_cmsgw2_call_compact, 18, cm::w2_call);
inst3!(t, l1_cmsgw0_reply_compact, 18, cm::w0_reply);
inst3!(t, l1_cmsgw1_exception_compact, 18, cm::w1_exception);
inst3!(t, l1_cmsgw1_oneway_compact, 18, cm::w1_oneway);
crate::proof!{ #[kani::unwind(7)] fn c01_q_l1_cmsgr1_call_compact() { l1::l1_cmsg_read::<1, 1>() } }
crate::proof!{ #[kani::unwind(7)] fn c01_t_l1_cmsgr2_reply_compact() { l1::l1_cmsg_read::<2, 2>() } }
crate::proof!{ #[kani::unwind(7)] fn c01_t_l1_cmsgr3_exception_compact() { l1::l1_cmsg_read::<3, 3>() } }
crate::proof!{ #[kani::unwind(7)] fn c01_t_l1_cmsgr4_oneway_compact() { l1::l1_cmsg_read::<4, 4>() } }
crate::proof!{ #[kani::unwind(7)] fn c01_q_l1_cmsgr5_call_compact() { l1::l1_cmsg_read::<5, 1>() } }
crate::proof!{ #[kani::unwind(3)] fn c03_q_l1_type_tables() { l1::l1_type_tables() } }

crate::proof!{ #[kani::unwind(3)] fn c03_q_l1_bool_any_byte_bin() { l1::l1_bool_any_byte::<PBin>() } }
crate::proof!{ #[kani::unwind(3)] fn c03_q_l1_bool_any_byte_unchecked() { l1::l1_bool_any_byte::<PUnchecked>() } }
crate::proof!{ #[kani::unwind(3)] fn c03_q_l1_bool_any_byte_compact() { l1::l1_bool_any_byte::<PCompact>() } }
crate::proof!{ #[kani::unwind(5)] fn c03_q_l1_compact_field_alt_forms() { l1::l1_compact_field_alt_forms() } }
crate::proof!{ #[kani::unwind(5)] fn c03_q_l1_app_exception_w_bin() { l1::l1_app_exception::<PBin, 0>() } }
crate::proof!{ #[kani::unwind(5)] fn c03_q_l1_app_exception_r_bin() { l1::l1_app_exception::<PBin, 1>() } }
crate::proof!{ #[kani::unwind(5)] fn c03_t_l1_app_exception_w_unchecked() { l1::l1_app_exception::<PUnchecked, 0>() } }
crate::proof!{ #[kani::unwind(5)] fn c03_t_l1_app_exception_r_unchecked() { l1::l1_app_exception::<PUnchecked, 1>() } }
