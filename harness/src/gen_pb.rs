//! Rust emitted by the CURRENT pilota-build for corpus/p_scalars.proto.
#![allow(warnings, clippy::all)]
pub mod scalars {
    include!("gen/p_scalars.rs");
}
pub use scalars::p_scalars::p_scalars as ps;
