//! C11: unchecked binary codec vs. checked binary codec, within the documented contract.
//! Writer: same symbolic value through both; the unchecked writer gets a buffer of EXACTLY the
//! reported size (so that any write past it is an out-of-object access for CBMC's pointer
//! checks); bytes and final index must equal the checked writer's output.
//! Reader: the checked writer's bytes (+ tail) through both readers: same values, same
//! consumption. Set-up follows pilota/benches/thrift_binary.rs and pilota-build/benches/unknown.rs.
#![allow(unused)]
use crate::common::*;
use crate::protos::*;
use crate::skip::{self, Leaves};
use linkedbytes::LinkedBytes;
use pilota::thrift::binary_unsafe::{TBinaryUnsafeInputProtocol as UIn, TBinaryUnsafeOutputProtocol as UOut};

/// frame: struct { id: <shape> ; stop }
#[cfg(kani)]
fn write_framed<W: TOutputProtocol>(w: &mut W, shape: u8, id: i16, l: &Leaves) {
    ok(w.write_struct_begin(&SID));
    ok(w.write_field_begin(skip::ttype_of_shape(shape), id));
    skip::write_shape(w, shape, l);
    ok(w.write_field_end());
    ok(w.write_field_stop());
    ok(w.write_struct_end());
}
fn len_framed<W: TLengthProtocol>(w: &mut W, shape: u8, id: i16, l: &Leaves) -> usize {
    w.struct_begin_len(&SID)
        + w.field_begin_len(skip::ttype_of_shape(shape), Some(id))
        + skip::len_shape(w, shape, l)
        + w.field_end_len()
        + w.field_stop_len()
        + w.struct_end_len()
}

/// unchecked writer over `&mut BytesMut`, exact-size window
#[cfg(kani)]
pub fn write_diff_bytesmut<const SHAPE: u8>() {
    let l = Leaves::any();
    let id: i16 = kani::any();
    let mut a = BytesMut::with_capacity(64);
    let size;
    {
        let mut w = PBin::writer(&mut a);
        size = len_framed(&mut w, SHAPE, id, &l);
        write_framed(&mut w, SHAPE, id, &l);
        PBin::finish(w);
    }
    kani::assert(a.len() == size, "HARNESS: checked writer wrote the reported size (C04)");
    // exactly `size` bytes of capacity
    let mut b = BytesMut::with_capacity(size);
    b.resize(size, 0);
    let idx;
    {
        let s: &'static mut [u8] = unsafe { core::slice::from_raw_parts_mut(b.as_mut_ptr(), size) };
        let mut w = unsafe { UOut::new(&mut b, s, false) };
        let reported = len_framed(&mut w, SHAPE, id, &l);
        kani::assert(reported == size, "C11: unchecked codec reports the same size as the checked one");
        write_framed(&mut w, SHAPE, id, &l);
        idx = w.index();
        core::mem::forget(w);
    }
    kani::assert(idx == size, "C11: unchecked writer advanced exactly the reported size");
    b.truncate(idx);
    let mut o = crate::ref_thrift::Out::<64>::new();
    o.put_sym(&b[..]);
    kani::assert(o.eq_bytes(&a[..]), "C11: unchecked writer wrote exactly the bytes of the checked writer");
    kani::cover!(true, "reached end");
    core::mem::forget(a);
    core::mem::forget(b);
}

/// unchecked writer over `&mut LinkedBytes` (window = spare capacity), zero-copy flag symbolic
#[cfg(kani)]
pub fn write_diff_linked<const SHAPE: u8>() {
    let l = Leaves::any();
    let id: i16 = kani::any();
    let zc: bool = kani::any();
    let mut a = BytesMut::with_capacity(64);
    {
        let mut w = PBin::writer(&mut a);
        write_framed(&mut w, SHAPE, id, &l);
        PBin::finish(w);
    }
    let size = a.len();
    let mut lb = LinkedBytes::with_capacity(size);
    {
        let mut w = LUnchecked::writer(&mut lb, zc);
        write_framed(&mut w, SHAPE, id, &l);
        LUnchecked::finish(w);
    }
    let o = concat::<64>(&lb);
    kani::assert(o.eq_bytes(&a[..]), "C11: unchecked LinkedBytes writer wrote exactly the bytes of the checked writer");
    kani::cover!(true, "reached end");
    core::mem::forget(a);
    core::mem::forget(lb);
}

/// reader differential on writer-produced bytes followed by a 2-byte tail
#[cfg(kani)]
pub fn read_diff<const SHAPE: u8>() {
    let l = Leaves::any();
    let id: i16 = kani::any();
    let mut a = BytesMut::with_capacity(64);
    {
        let mut w = PBin::writer(&mut a);
        write_framed(&mut w, SHAPE, id, &l);
        PBin::finish(w);
    }
    let total = a.len();
    let tail: [u8; 2] = kani::any();
    a.put_slice(&tail);
    let frozen = a.freeze();
    let mut b1 = frozen.clone();
    let mut b2 = frozen.clone();
    let ty = skip::ttype_of_shape(SHAPE);
    let ok1;
    let rem1;
    {
        let mut r = PBin::reader(&mut b1);
        ok(r.read_struct_begin());
        let f = ok(r.read_field_begin());
        let mut g = f.field_type == ty && f.id == Some(id);
        g &= skip::read_shape(&mut r, SHAPE, &l);
        ok(r.read_field_end());
        let f = ok(r.read_field_begin());
        g &= f.field_type == TType::Stop;
        ok(r.read_struct_end());
        ok1 = g;
        rem1 = PBin::remaining(&mut r);
        core::mem::forget(r);
    }
    let ok2;
    let rem2;
    {
        let mut r = PUnchecked::reader(&mut b2);
        ok(r.read_struct_begin());
        let f = ok(r.read_field_begin());
        let mut g = f.field_type == ty && f.id == Some(id);
        g &= skip::read_shape(&mut r, SHAPE, &l);
        ok(r.read_field_end());
        let f = ok(r.read_field_begin());
        g &= f.field_type == TType::Stop;
        ok(r.read_struct_end());
        ok2 = g;
        rem2 = PUnchecked::remaining(&mut r);
        core::mem::forget(r);
    }
    kani::assert(ok1, "HARNESS: checked reader reads back the value (C01)");
    kani::assert(ok2, "C11: unchecked reader decodes the same values as the checked reader");
    kani::assert(rem1 == 2 && rem2 == rem1, "C11: unchecked reader accounts for the same number of consumed bytes");
    kani::cover!(true, "reached end");
    core::mem::forget(b1);
    core::mem::forget(b2);
    core::mem::forget(frozen);
}

/// skipping an unknown field: unchecked skip vs checked skip on the same bytes, then the next
/// known field is read identically
#[cfg(kani)]
pub fn skip_diff<const SHAPE: u8>() {
    let l = Leaves::any();
    let id: i16 = kani::any();
    let after: i8 = kani::any();
    let mut a = BytesMut::with_capacity(64);
    {
        let mut w = PBin::writer(&mut a);
        ok(w.write_struct_begin(&SID));
        ok(w.write_field_begin(skip::ttype_of_shape(SHAPE), id));
        skip::write_shape(&mut w, SHAPE, &l);
        ok(w.write_field_end());
        ok(w.write_field_begin(TType::I8, 7));
        ok(w.write_i8(after));
        ok(w.write_field_end());
        ok(w.write_field_stop());
        ok(w.write_struct_end());
        PBin::finish(w);
    }
    let frozen = a.freeze();
    let mut b1 = frozen.clone();
    let mut b2 = frozen.clone();
    let ty = skip::ttype_of_shape(SHAPE);
    let n1;
    {
        let mut r = PBin::reader(&mut b1);
        ok(r.read_struct_begin());
        let _ = ok(r.read_field_begin());
        n1 = ok(r.skip(ty));
        ok(r.read_field_end());
        let f = ok(r.read_field_begin());
        kani::assert(f.field_type == TType::I8 && f.id == Some(7) && ok(r.read_i8()) == after, "HARNESS: checked reader continues after skip (C07)");
        core::mem::forget(r);
    }
    {
        let mut r = PUnchecked::reader(&mut b2);
        ok(r.read_struct_begin());
        let _ = ok(r.read_field_begin());
        let n2 = ok(r.skip(ty));
        kani::assert(n2 == n1, "C11: unchecked skip reports the same byte count as the checked skip");
        ok(r.read_field_end());
        let f = ok(r.read_field_begin());
        kani::assert(f.field_type == TType::I8 && f.id == Some(7), "C11: field after a skipped unknown field is found by the unchecked reader");
        kani::assert(ok(r.read_i8()) == after, "C11: value after a skipped unknown field is read by the unchecked reader");
        core::mem::forget(r);
    }
    kani::cover!(true, "reached end");
    core::mem::forget(b1);
    core::mem::forget(b2);
    core::mem::forget(frozen);
}
