//! L2 harness instances (C01 round trip, C04 length).
#![allow(unused)]
use crate::l0::{C01, C04};
use crate::l2;
use crate::protos::*;
use crate::skip::*;
use paste::paste;
macro_rules! l2i {
    ($tier:ident, $shape:ident, $second:ident, $p:ty, $pn:ident, $unw:expr) => { paste! {
        crate::proof!{ #[kani::unwind($unw)] fn [<c01_ $tier _l2_ $shape:lower _then_ $second:lower _ $pn>]() { l2::l2_shape::<$p, {C01}, {$shape}, {$second}>() } }
        crate::proof!{ #[kani::unwind($unw)] fn [<c04_ $tier _l2_ $shape:lower _then_ $second:lower _ $pn>]() { l2::l2_shape::<$p, {C04}, {$shape}, {$second}>() } }
    }};
}
macro_rules! l2_all {
    ($tb:ident, $tc:ident, $shape:ident, $second:ident, $unw_bin:expr, $unw_cmp:expr) => {
        l2i!($tb, $shape, $second, PBin, bin, $unw_bin);
        l2i!(t, $shape, $second, PLe, le, $unw_bin);
        l2i!(t, $shape, $second, PUnchecked, unchecked, $unw_bin);
        l2i!($tc, $shape, $second, PCompact, compact, $unw_cmp);
    };
}
l2_all!(t, t, V_STRUCT_NEST, V_STRUCT_FLAT, 5, 7);
l2_all!(t, t, V_STRUCT_FLAT, V_I16, 5, 7);
l2_all!(t, t, V_STRUCT_NEST, V_I8, 5, 7);
l2_all!(t, t, V_LIST_STRUCT, V_STRUCT_FLAT, 5, 7);
l2_all!(t, t, V_MAP_I8_BIN, V_I32, 5, 7);
l2_all!(t, t, V_LIST_I32_2, V_LIST_BOOL_2, 5, 7);
l2_all!(t, t, V_SET_I8_2, V_MAP_I16_I64, 9, 12);
l2_all!(t, t, V_STRUCT_EMPTY, V_MAP_EMPTY, 5, 7);
l2_all!(t, t, V_LIST_BIN_1, V_BINARY2, 5, 7);
l2_all!(t, t, V_DOUBLE, V_UUID, 17, 17);
// the nested-struct sibling shape alone, compact, quick (smallest form of the field-id-stack property)

crate::proof!{ #[kani::unwind(3)] fn c01_q_l2_boolfield_then_bool_true_compact() { l2::l2_boolfield_then_bool::<PCompact, true>() } }
crate::proof!{ #[kani::unwind(3)] fn c01_q_l2_boolfield_then_bool_false_compact() { l2::l2_boolfield_then_bool::<PCompact, false>() } }
crate::proof!{ #[kani::unwind(3)] fn c01_t_l2_boolfield_then_bool_true_bin() { l2::l2_boolfield_then_bool::<PBin, true>() } }
