//! Kani harness crate for cloudwego/pilota (instantiated by /verif/bin/check into a scratch
//! directory with path dependencies on /repo). See /verif/DESIGN.md.
#![allow(unused, clippy::all)]
pub mod common;
pub mod protos;
pub mod ref_thrift;
pub mod l0;
pub mod insts_l0;
