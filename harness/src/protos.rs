//! The protocol pairs under test, behind one trait so that every harness body is written
//! once and instantiated per protocol (one Kani harness per concrete instantiation).
#![allow(unused)]
use crate::common::*;
use linkedbytes::LinkedBytes;
use pilota::thrift::{
    binary::TBinaryProtocol as Bin,
    binary_le::TBinaryProtocol as BinLe,
    binary_unsafe::{TBinaryUnsafeInputProtocol as UIn, TBinaryUnsafeOutputProtocol as UOut},
    compact::{TCompactInputProtocol as CIn, TCompactOutputProtocol as COut},
};

#[derive(Clone, Copy, PartialEq, Eq)]
pub enum Wire {
    Binary,
    BinaryLe,
    Compact,
}

pub trait Proto {
    const WIRE: Wire;
    type W<'a>: TOutputProtocol;
    type R<'a>: TInputProtocol<Buf = Bytes>;
    /// `b` has capacity >= everything that will be written and len == 0.
    fn writer<'a>(b: &'a mut BytesMut) -> Self::W<'a>;
    /// Makes everything written visible in the `BytesMut` and disposes of the writer.
    fn finish<'a>(w: Self::W<'a>);
    fn reader<'a>(b: &'a mut Bytes) -> Self::R<'a>;
    /// Bytes of the input not yet consumed by the reader.
    fn remaining<'a>(r: &mut Self::R<'a>) -> usize;
}

pub struct PBin;
impl Proto for PBin {
    const WIRE: Wire = Wire::Binary;
    type W<'a> = Bin<&'a mut BytesMut>;
    type R<'a> = Bin<&'a mut Bytes>;
    fn writer<'a>(b: &'a mut BytesMut) -> Self::W<'a> {
        Bin::new(b, false)
    }
    fn finish<'a>(w: Self::W<'a>) {
        core::mem::forget(w)
    }
    fn reader<'a>(b: &'a mut Bytes) -> Self::R<'a> {
        Bin::new(b, false)
    }
    fn remaining<'a>(r: &mut Self::R<'a>) -> usize {
        r.buf().remaining()
    }
}

pub struct PLe;
impl Proto for PLe {
    const WIRE: Wire = Wire::BinaryLe;
    type W<'a> = BinLe<&'a mut BytesMut>;
    type R<'a> = BinLe<&'a mut Bytes>;
    fn writer<'a>(b: &'a mut BytesMut) -> Self::W<'a> {
        BinLe::new(b, false)
    }
    fn finish<'a>(w: Self::W<'a>) {
        core::mem::forget(w)
    }
    fn reader<'a>(b: &'a mut Bytes) -> Self::R<'a> {
        BinLe::new(b, false)
    }
    fn remaining<'a>(r: &mut Self::R<'a>) -> usize {
        r.buf().remaining()
    }
}

pub struct PCompact;
impl Proto for PCompact {
    const WIRE: Wire = Wire::Compact;
    type W<'a> = COut<&'a mut BytesMut>;
    type R<'a> = CIn<&'a mut Bytes>;
    fn writer<'a>(b: &'a mut BytesMut) -> Self::W<'a> {
        COut::new(b, false)
    }
    fn finish<'a>(w: Self::W<'a>) {
        core::mem::forget(w)
    }
    fn reader<'a>(b: &'a mut Bytes) -> Self::R<'a> {
        CIn::new(b)
    }
    fn remaining<'a>(r: &mut Self::R<'a>) -> usize {
        r.buf().remaining()
    }
}

/// Unchecked binary codec, `&mut BytesMut` transport, set up like pilota/benches/thrift_binary.rs:
/// the window starts at the transport's first byte and spans its capacity.
pub struct PUnchecked;
impl Proto for PUnchecked {
    const WIRE: Wire = Wire::Binary;
    type W<'a> = UOut<&'a mut BytesMut>;
    type R<'a> = UIn<'a>;
    fn writer<'a>(b: &'a mut BytesMut) -> Self::W<'a> {
        // pre-filled transport (len == capacity), window over all of it: the form of the
        // repository's bench in which `self.trans[..]` and the window coincide. (With len == 0
        // the writer's `self.trans.get_unchecked_mut(..)` indexes past the slice length, which
        // std's debug precondition checks reject natively; see DESIGN.md §4 C11.)
        let cap = b.capacity();
        b.resize(cap, 0);
        unsafe {
            let s: &'static mut [u8] = core::slice::from_raw_parts_mut(b.as_mut_ptr(), cap);
            UOut::new(b, s, false)
        }
    }
    fn finish<'a>(mut w: Self::W<'a>) {
        let idx = w.index();
        w.buf_mut().truncate(idx);
        core::mem::forget(w)
    }
    fn reader<'a>(b: &'a mut Bytes) -> Self::R<'a> {
        unsafe { UIn::new(b) }
    }
    fn remaining<'a>(r: &mut Self::R<'a>) -> usize {
        let idx = r.index();
        r.buf().remaining() - idx
    }
}

// ------------------------------------------------------------------ LinkedBytes writers
pub trait LProto {
    const WIRE: Wire;
    type W<'a>: TOutputProtocol;
    fn writer<'a>(b: &'a mut LinkedBytes, zero_copy: bool) -> Self::W<'a>;
    fn finish<'a>(w: Self::W<'a>);
}
pub struct LBin;
impl LProto for LBin {
    const WIRE: Wire = Wire::Binary;
    type W<'a> = Bin<&'a mut LinkedBytes>;
    fn writer<'a>(b: &'a mut LinkedBytes, z: bool) -> Self::W<'a> {
        Bin::new(b, z)
    }
    fn finish<'a>(w: Self::W<'a>) {
        core::mem::forget(w)
    }
}
pub struct LLe;
impl LProto for LLe {
    const WIRE: Wire = Wire::BinaryLe;
    type W<'a> = BinLe<&'a mut LinkedBytes>;
    fn writer<'a>(b: &'a mut LinkedBytes, z: bool) -> Self::W<'a> {
        BinLe::new(b, z)
    }
    fn finish<'a>(w: Self::W<'a>) {
        core::mem::forget(w)
    }
}
pub struct LCompact;
impl LProto for LCompact {
    const WIRE: Wire = Wire::Compact;
    type W<'a> = COut<&'a mut LinkedBytes>;
    fn writer<'a>(b: &'a mut LinkedBytes, z: bool) -> Self::W<'a> {
        COut::new(b, z)
    }
    fn finish<'a>(w: Self::W<'a>) {
        core::mem::forget(w)
    }
}
/// Unchecked writer over LinkedBytes, set up like pilota-build/benches/unknown.rs: the window
/// is the spare capacity after `bytes_mut().len()`; the caller commits `index()` at the end.
pub struct LUnchecked;
impl LProto for LUnchecked {
    const WIRE: Wire = Wire::Binary;
    type W<'a> = UOut<&'a mut LinkedBytes>;
    fn writer<'a>(b: &'a mut LinkedBytes, z: bool) -> Self::W<'a> {
        unsafe {
            let l = b.bytes_mut().len();
            let s: &'static mut [u8] = core::slice::from_raw_parts_mut(
                b.bytes_mut().as_mut_ptr().add(l),
                b.bytes_mut().capacity() - l,
            );
            UOut::new(b, s, z)
        }
    }
    fn finish<'a>(mut w: Self::W<'a>) {
        let idx = w.index();
        unsafe { w.buf_mut().bytes_mut().advance_mut(idx) };
        core::mem::forget(w)
    }
}

/// Concatenation of all nodes of a LinkedBytes followed by its current buffer.
pub fn concat<const N: usize>(lb: &LinkedBytes) -> crate::ref_thrift::Out<N> {
    let mut o = crate::ref_thrift::Out::<N>::new();
    // memcpy per node (no byte loop: the harness-wide unwind bound stays small)
    for node in lb.iter_list() {
        o.put_sym(node.as_ref());
    }
    o.put_sym(lb.bytes().as_ref());
    o
}
