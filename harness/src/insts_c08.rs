//! C08 harness instances.
#![allow(unused)]
use crate::c08::{self, *};
use crate::protos::*;
use paste::paste;
macro_rules! rx {
    ($tier:ident, $x:ident, $pos:expr, $p:ty, $pn:ident) => { paste! {
        crate::proof!{ #[kani::unwind(10)] fn [<c08_ $tier _rec_ $x:lower _pos $pos _ $pn>]() { c08::rec_with_extra::<$p, {c08::$x}, $pos>() } }
    }};
}
rx!(q, X_NONE, 0, PBin, bin);
rx!(q, X_ADDED_I64, 0, PBin, bin);
rx!(t, X_ADDED_I64, 1, PBin, bin);
rx!(t, X_ADDED_STR, 0, PBin, bin);
rx!(q, X_ADDED_STR, 1, PBin, bin);
rx!(q, X_ADDED_STRUCT, 0, PBin, bin);
rx!(t, X_ADDED_STRUCT, 1, PBin, bin);
rx!(t, X_ADDED_LIST, 0, PBin, bin);
rx!(q, X_ADDED_LIST, 1, PBin, bin);
rx!(q, X_RETYPED, 0, PBin, bin);
rx!(t, X_RETYPED, 1, PBin, bin);
rx!(q, X_ENUM_UNKNOWN_NUMBER, 1, PBin, bin);
rx!(q, X_NAME_PRESENT, 1, PBin, bin);
rx!(t, X_ADDED_I64, 0, PLe, le);
rx!(t, X_RETYPED, 1, PLe, le);
rx!(t, X_ADDED_STRUCT, 1, PUnchecked, unchecked);
rx!(t, X_RETYPED, 0, PUnchecked, unchecked);
macro_rules! ra {
    ($tier:ident, $x:ident, $p:ty, $pn:ident) => { paste! {
        crate::proof!{ #[kani::unwind(10)] fn [<c08_ $tier _required_absent_ $x:lower _ $pn>]() { c08::rec_required_absent::<$p, {c08::$x}>() } }
    }};
}
ra!(q, X_NONE, PBin, bin);
ra!(q, X_ADDED_I64, PBin, bin);
ra!(t, X_NAME_PRESENT, PBin, bin);
ra!(t, X_RETYPED, PBin, bin);
macro_rules! un {
    ($tier:ident, $c:ident, $p:ty, $pn:ident) => { paste! {
        crate::proof!{ #[kani::unwind(10)] fn [<c08_ $tier _union_ $c:lower _ $pn>]() { c08::union_cases::<$p, {c08::$c}>() } }
    }};
}
un!(q, U_KNOWN_A, PBin, bin);
un!(q, U_UNKNOWN_THEN_KNOWN, PBin, bin);
un!(q, U_ONLY_UNKNOWN, PBin, bin);
un!(q, U_EMPTY, PBin, bin);
un!(q, U_TWO_KNOWN, PBin, bin);
un!(q, U_RETYPED_VARIANT, PBin, bin);
un!(t, U_UNKNOWN_THEN_KNOWN, PLe, le);
un!(t, U_TWO_KNOWN, PUnchecked, unchecked);
