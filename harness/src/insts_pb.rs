//! Harness instances for the protobuf runtime codecs (C05 round trip/len, C06 conformance).
#![allow(unused)]
use crate::pb::{self, C05, C06};
use paste::paste;

/// protobuf harnesses need only the fmt cut (DecodeError::new(format!(..)))
macro_rules! pproof {
    ($(#[$m:meta])* fn $name:ident() $body:block) => {
        #[cfg(kani)]
        #[kani::proof]
        #[kani::stub(alloc::fmt::format, $crate::common::fmt_stub)]
        $(#[$m])*
        pub fn $name() $body
    };
}
pub(crate) use pproof;

macro_rules! inst2 {
    ($tier:ident, $name:ident, $unw:expr, $($call:tt)*) => { paste! {
        pproof!{ #[kani::unwind($unw)] fn [<c05_ $tier _ $name>]() { $($call)*::<{C05}>() } }
        pproof!{ #[kani::unwind($unw)] fn [<c06_ $tier _ $name>]() { $($call)*::<{C06}>() } }
    }};
}
#[cfg(kani)]
mod a {
    use super::*;
    pub fn varint0<const W: u8>() { pb::pb_varint::<W, 0>() }
    pub fn varint1<const W: u8>() { pb::pb_varint::<W, 1>() }
    pub fn varint2<const W: u8>() { pb::pb_varint::<W, 2>() }
    pub fn key<const W: u8>() { pb::pb_key::<W>() }
    macro_rules! sc { ($($m:ident),*) => { paste! { $(
        pub fn [<$m _small>]<const W: u8>() { pb::[<pb_ $m>]::<W, 2047>() }
        pub fn [<$m _full>]<const W: u8>() { pb::[<pb_ $m>]::<W, {pilota::prost::encoding::MAX_TAG}>() }
    )* } } }
    sc!(bool, int32, int64, uint32, uint64, sint32, sint64, fixed32, fixed64, sfixed32, sfixed64, float, double);
    macro_rules! bl { ($($n:ident, $api:ident, $len:expr);*) => { paste! { $(
        pub fn $n<const W: u8>() { pb::pb_blob::<W, {pb::$api}, $len, 9>() }
    )* } } }
    bl!(string0, A_STRING, 0; string2, A_STRING, 2; string3, A_STRING, 3;
        faststr0, A_FASTSTR, 0; faststr2, A_FASTSTR, 2;
        bytes0, A_BYTES, 0; bytes2, A_BYTES, 2; bytes3, A_BYTES, 3;
        vec2, A_VEC, 2);
    macro_rules! rp { ($($m:ident),*) => { paste! { $(
        pub fn [<$m _unpacked>]<const W: u8>() { pb::[<pb_ $m>]::<W, false>() }
        pub fn [<$m _packed>]<const W: u8>() { pb::[<pb_ $m>]::<W, true>() }
    )* } } }
    rp!(rep_int32, rep_sint64, rep_bool, rep_fixed32, rep_double);
    pub fn message<const W: u8>() { pb::pb_message::<W, {pb::M_MESSAGE}>() }
    pub fn group<const W: u8>() { pb::pb_message::<W, {pb::M_GROUP}>() }
    pub fn top<const W: u8>() { pb::pb_message::<W, {pb::M_TOP}>() }
    pub fn lendelim<const W: u8>() { pb::pb_message::<W, {pb::M_LENDELIM}>() }
    pub fn btree_map<const W: u8>() { pb::pb_btree_map::<W>() }
}
inst2!(q, varint_exact, 12, a::varint0);
inst2!(q, varint_long_chunk, 12, a::varint1);
inst2!(q, varint_chained, 12, a::varint2);
inst2!(q, key, 12, a::key);
macro_rules! scalars { ($($m:ident),*) => { paste! { $(
    inst2!(q, [<$m _tag11bit>], 17, a::[<$m _small>]);
    inst2!(t, [<$m _anytag>], 17, a::[<$m _full>]);
)* } } }
scalars!(bool, int32, int64, uint32, uint64, sint32, sint64, fixed32, fixed64, sfixed32, sfixed64, float, double);
inst2!(t, string0, 12, a::string0);
inst2!(q, string2, 12, a::string2);
inst2!(t, string3, 12, a::string3);
inst2!(t, faststr0, 12, a::faststr0);
inst2!(q, faststr2, 12, a::faststr2);
inst2!(t, bytes0, 12, a::bytes0);
inst2!(q, bytes2, 12, a::bytes2);
inst2!(t, bytes3, 12, a::bytes3);
inst2!(q, vec2, 12, a::vec2);
inst2!(t, rep_int32_unpacked, 12, a::rep_int32_unpacked);
inst2!(t, rep_int32_packed, 12, a::rep_int32_packed);
inst2!(t, rep_sint64_unpacked, 12, a::rep_sint64_unpacked);
inst2!(t, rep_sint64_packed, 12, a::rep_sint64_packed);
inst2!(t, rep_bool_unpacked, 12, a::rep_bool_unpacked);
inst2!(t, rep_bool_packed, 12, a::rep_bool_packed);
inst2!(t, rep_fixed32_unpacked, 12, a::rep_fixed32_unpacked);
inst2!(q, rep_fixed32_packed, 12, a::rep_fixed32_packed);
inst2!(t, rep_double_unpacked, 12, a::rep_double_unpacked);
inst2!(t, rep_double_packed, 12, a::rep_double_packed);
inst2!(t, message, 12, a::message);
inst2!(t, group, 12, a::group);
inst2!(t, top, 12, a::top);
inst2!(t, lendelim, 12, a::lendelim);
inst2!(t, btree_map, 12, a::btree_map);
// decomposed (w)/(r) harnesses, see pb.rs
#[cfg(kani)]
mod d {
    use super::*;
    pub fn msg_w<const W: u8>() { pb::pb_message_w::<W, {pb::M_MESSAGE}>() }
    pub fn group_w<const W: u8>() { pb::pb_message_w::<W, {pb::M_GROUP}>() }
    pub fn top_w<const W: u8>() { pb::pb_message_w::<W, {pb::M_TOP}>() }
    pub fn lendelim_w<const W: u8>() { pb::pb_message_w::<W, {pb::M_LENDELIM}>() }
    pub fn rep_unpacked_w<const W: u8>() { pb::pb_rep_int32_w::<W, false>() }
    pub fn rep_packed_w<const W: u8>() { pb::pb_rep_int32_w::<W, true>() }
    pub fn map_w<const W: u8>() { pb::pb_btree_map_w::<W>() }
    pub fn map_w_long<const W: u8>() { pb::pb_btree_map_w_long::<W>() }
}
inst2!(q, dec_message_w, 12, d::msg_w);
inst2!(q, dec_group_w, 12, d::group_w);
inst2!(t, dec_top_w, 12, d::top_w);
inst2!(t, dec_lendelim_w, 12, d::lendelim_w);
inst2!(q, dec_rep_int32_unpacked_w, 12, d::rep_unpacked_w);
inst2!(q, dec_rep_int32_packed_w, 12, d::rep_packed_w);
inst2!(q, dec_btree_map_w, 12, d::map_w);
inst2!(t, dec_btree_map_w_long, 12, d::map_w_long);
macro_rules! rinst {
    ($tier:ident, $name:ident, $unw:expr, $($call:tt)*) => { paste! {
        pproof!{ #[kani::unwind($unw)] fn [<c05_ $tier _ $name>]() { $($call)*() } }
        pproof!{ #[kani::unwind($unw)] fn [<c06_ $tier _ $name>]() { $($call)*() } }
    }};
}
rinst!(t, dec_message_r1, 12, pb::pb_message_r::<{pb::M_MESSAGE}, 1, 0>);
rinst!(t, dec_message_r2, 12, pb::pb_message_r::<{pb::M_MESSAGE}, 2, 2>);
rinst!(t, dec_message_r10, 12, pb::pb_message_r::<{pb::M_MESSAGE}, 10, 1>);
rinst!(t, dec_group_r1, 12, pb::pb_message_r::<{pb::M_GROUP}, 1, 1>);
rinst!(t, dec_group_r10, 12, pb::pb_message_r::<{pb::M_GROUP}, 10, 0>);
rinst!(t, dec_top_r5, 12, pb::pb_message_r::<{pb::M_TOP}, 5, 1>);
rinst!(q, dec_lendelim_r3, 12, pb::pb_message_r::<{pb::M_LENDELIM}, 3, 3>);
rinst!(t, dec_rep_int32_packed_r_1_2, 12, pb::pb_rep_int32_r::<true, 1, 2>);
rinst!(t, dec_rep_int32_packed_r_10_1, 12, pb::pb_rep_int32_r::<true, 10, 1>);
rinst!(t, dec_rep_int32_unpacked_r_2_10, 12, pb::pb_rep_int32_r::<false, 2, 10>);
rinst!(t, dec_rep_int32_unpacked_r_5_5, 12, pb::pb_rep_int32_r::<false, 5, 5>);
rinst!(q, dec_btree_map_r1, 12, pb::pb_btree_map_r::<1, 1>);
rinst!(t, dec_btree_map_r10, 12, pb::pb_btree_map_r::<10, 0>);
rinst!(t, dec_btree_map_r2_keyonly, 12, pb::pb_btree_map_r::<2, 2>);
rinst!(q, dec_btree_map_r1_valueonly, 12, pb::pb_btree_map_r::<1, 3>);
rinst!(q, dec_rep_int32_packed_r1_len1, 12, pb::pb_rep_int32_r1::<true, 1>);
rinst!(t, dec_rep_int32_packed_r1_len10, 12, pb::pb_rep_int32_r1::<true, 10>);
rinst!(q, dec_rep_int32_unpacked_r1_len2, 12, pb::pb_rep_int32_r1::<false, 2>);
#[cfg(kani)]
#[kani::proof]
#[kani::unwind(12)]
#[kani::stub(alloc::fmt::format, crate::common::fmt_stub)]
#[kani::stub(ahash::RandomState::new, crate::pb::rs_stub)]
pub fn c05_x_hash_map_w() { pb::pb_hash_map_roundtrip::<{C05}>() }
