//! C10: protobuf decoders are total and bounded on arbitrary bytes.
//! (a) one decoder call on an arbitrary slice of symbolic length <= N; wire type concrete per
//!     instance. No panic is the implicit assertion (Kani checks every panic, index, overflow,
//!     unwrap); explicit: agreement with the reference varint decoder, and "a length prefix
//!     larger than the remaining input is an error".
//! (b) recursion budget, one level from an ARBITRARY budget (hook DecodeContext::verif_with_budget,
//!     compiled with --cfg pilota_verif): refused at 0, decremented exactly once otherwise,
//!     never underflows. Induction over the nesting depth gives the 100-level limit.
#![allow(unused)]
use crate::pb::{okd, Mini};
use crate::ref_pb as rp;
use bytes::{Buf, BufMut, Bytes};
use pilota::prost::encoding::{self as enc, DecodeContext, WireType};
use pilota::prost::{DecodeError, Message};

#[cfg(kani)]
fn any_slice<const N: usize>(arr: &[u8; N]) -> &[u8] {
    let len: usize = kani::any();
    kani::assume(len <= N);
    &arr[..len]
}

/// decode_varint vs. the reference LEB128 decoder (max 10 bytes, 64-bit overflow rejected)
#[cfg(kani)]
pub fn varint_arbitrary<const N: usize>() {
    let arr: [u8; N] = kani::any();
    let s = any_slice(&arr);
    let mut r: &[u8] = s;
    let got = enc::decode_varint(&mut r);
    let consumed = s.len() - r.len();
    // reference: at most 10 bytes, the tenth may only contribute one bit
    let reference = match rp::varint_decode(s, 10) {
        Some((v, n)) => {
            if n == 10 && s[9] > 1 {
                None
            } else {
                Some((v, n))
            }
        }
        None => None,
    };
    match (&got, reference) {
        (Ok(v), Some((rv, rn))) => kani::assert(*v == rv && consumed == rn, "C10: decode_varint agrees with the reference decoder (value and bytes consumed)"),
        (Err(_), None) => {}
        (Ok(_), None) => kani::assert(false, "C10: decode_varint accepts what the reference decoder rejects (unterminated / overflowing varint)"),
        (Err(_), Some(_)) => kani::assert(false, "C10: decode_varint rejects a valid varint"),
    }
    kani::cover!(N < 10 || (got.is_ok() && consumed == 10), "ten byte varint accepted");
    kani::cover!(got.is_err(), "some input rejected");
    core::mem::forget(got);
}

pub const D_KEY: u8 = 0;
pub const D_INT32: u8 = 1;
pub const D_SINT64: u8 = 2;
pub const D_BOOL: u8 = 3;
pub const D_FIXED32: u8 = 4;
pub const D_DOUBLE: u8 = 5;
pub const D_BYTES: u8 = 6;
pub const D_VEC: u8 = 7;
pub const D_STRING: u8 = 8;
pub const D_FASTSTR: u8 = 9;
pub const D_LEN_DELIM: u8 = 10;
pub const D_SKIP_VARINT: u8 = 11;
pub const D_SKIP_I64: u8 = 12;
pub const D_SKIP_LEN: u8 = 13;
pub const D_SKIP_I32: u8 = 14;
pub const D_SKIP_EGROUP: u8 = 15;
pub const D_PACKED_FIXED32: u8 = 16;
pub const D_INT32_WRONG_WT: u8 = 17;

/// one decoder on an arbitrary slice
#[cfg(kani)]
pub fn decoder_arbitrary<const API: u8, const N: usize>() {
    let arr: [u8; N] = kani::any();
    let s = any_slice(&arr);
    let mut r: &[u8] = s;
    let ctx = DecodeContext::default();
    let is_ok;
    // for length-delimited decoders: what the length prefix says
    let prefix = rp::varint_decode(s, 10);
    match API {
        D_KEY => { let x = enc::decode_key(&mut r); is_ok = x.is_ok(); if let Ok((t, _)) = &x { kani::assert(*t >= 1 && *t <= enc::MAX_TAG, "C10: decoded tag is in the valid range"); } core::mem::forget(x); }
        D_INT32 => { let mut v = 0i32; let x = enc::int32::merge(WireType::Varint, &mut v, &mut r, ctx); is_ok = x.is_ok(); core::mem::forget(x); }
        D_INT32_WRONG_WT => { let mut v = 0i32; let x = enc::int32::merge(WireType::ThirtyTwoBit, &mut v, &mut r, ctx); is_ok = x.is_ok(); kani::assert(!is_ok, "C10: wrong wire type is rejected"); core::mem::forget(x); }
        D_SINT64 => { let mut v = 0i64; let x = enc::sint64::merge(WireType::Varint, &mut v, &mut r, ctx); is_ok = x.is_ok(); core::mem::forget(x); }
        D_BOOL => { let mut v = false; let x = enc::bool::merge(WireType::Varint, &mut v, &mut r, ctx); is_ok = x.is_ok(); core::mem::forget(x); }
        D_FIXED32 => { let mut v = 0u32; let x = enc::fixed32::merge(WireType::ThirtyTwoBit, &mut v, &mut r, ctx); is_ok = x.is_ok(); if s.len() < 4 { kani::assert(!is_ok, "C10: truncated fixed32 is rejected"); } core::mem::forget(x); }
        D_DOUBLE => { let mut v = 0f64; let x = enc::double::merge(WireType::SixtyFourBit, &mut v, &mut r, ctx); is_ok = x.is_ok(); if s.len() < 8 { kani::assert(!is_ok, "C10: truncated double is rejected"); } core::mem::forget(x); }
        D_BYTES => { let mut v = Bytes::new(); let x = enc::bytes::merge(WireType::LengthDelimited, &mut v, &mut r, ctx); is_ok = x.is_ok(); core::mem::forget(x); core::mem::forget(v); }
        D_VEC => { let mut v: Vec<u8> = Vec::new(); let x = enc::bytes::merge(WireType::LengthDelimited, &mut v, &mut r, ctx); is_ok = x.is_ok(); if is_ok { kani::assert(v.len() <= N, "C10: no more bytes are produced than the input holds"); } core::mem::forget(x); core::mem::forget(v); }
        D_STRING => { let mut v = String::new(); let x = enc::string::merge(WireType::LengthDelimited, &mut v, &mut r, ctx); is_ok = x.is_ok(); if !is_ok { kani::assert(v.is_empty(), "C10: a failed string merge leaves no partial (possibly invalid UTF-8) data"); } core::mem::forget(x); core::mem::forget(v); }
        D_FASTSTR => { let mut v = pilota::FastStr::empty(); let x = enc::faststr::merge(WireType::LengthDelimited, &mut v, &mut r, ctx); is_ok = x.is_ok(); core::mem::forget(x); core::mem::forget(v); }
        D_LEN_DELIM => { let x = pilota::prost::decode_length_delimiter(&mut r); is_ok = x.is_ok(); core::mem::forget(x); }
        D_SKIP_VARINT => { let x = enc::skip_field(WireType::Varint, 1, &mut r, ctx); is_ok = x.is_ok(); core::mem::forget(x); }
        D_SKIP_I64 => { let x = enc::skip_field(WireType::SixtyFourBit, 1, &mut r, ctx); is_ok = x.is_ok(); if s.len() < 8 { kani::assert(!is_ok, "C10: truncated 64-bit field is rejected"); } core::mem::forget(x); }
        D_SKIP_LEN => { let x = enc::skip_field(WireType::LengthDelimited, 1, &mut r, ctx); is_ok = x.is_ok(); core::mem::forget(x); }
        D_SKIP_I32 => { let x = enc::skip_field(WireType::ThirtyTwoBit, 1, &mut r, ctx); is_ok = x.is_ok(); if s.len() < 4 { kani::assert(!is_ok, "C10: truncated 32-bit field is rejected"); } core::mem::forget(x); }
        D_SKIP_EGROUP => { let x = enc::skip_field(WireType::EndGroup, 1, &mut r, ctx); is_ok = x.is_ok(); kani::assert(!is_ok, "C10: a stray end-group is rejected"); core::mem::forget(x); }
        _ => { let mut v: Vec<u32> = Vec::with_capacity(4); let x = enc::fixed32::merge_repeated(WireType::LengthDelimited, &mut v, &mut r, ctx); is_ok = x.is_ok(); if is_ok { kani::assert(v.len() * 4 <= N, "C10: packed elements never exceed what the input can hold"); } core::mem::forget(x); core::mem::forget(v); }
    }
    // "a length prefix that exceeds the remaining input is rejected"
    if matches!(API, D_BYTES | D_VEC | D_STRING | D_FASTSTR | D_SKIP_LEN | D_PACKED_FIXED32) {
        if let Some((l, n)) = prefix {
            if !(n == 10 && s[9] > 1) && l > (s.len() - n) as u64 {
                kani::assert(!is_ok, "C10: a length prefix larger than the remaining input is rejected");
            }
        }
    }
    if s.is_empty() && !matches!(API, D_SKIP_EGROUP | D_INT32_WRONG_WT) {
        kani::assert(!is_ok, "C10: empty input is rejected");
    }
    kani::cover!(is_ok || matches!(API, D_SKIP_EGROUP | D_INT32_WRONG_WT), "some input decodes");
    kani::cover!(true, "reached end");
}

// ---------------------------------------------------------------- (b) recursion budget
/// Records the budget it is handed; decodes nothing.
#[derive(Debug, Default)]
pub struct Probe {
    pub seen: Option<u32>,
    pub calls: u32,
}
#[cfg(pilota_verif)]
impl Message for Probe {
    fn encode_raw<B: BufMut>(&self, _buf: &mut B) {}
    fn merge_field<B: Buf>(&mut self, tag: u32, wire_type: WireType, buf: &mut B, ctx: DecodeContext) -> Result<(), DecodeError> {
        self.seen = Some(ctx.verif_budget());
        self.calls += 1;
        // the harness inputs carry exactly one varint field (skip_field is recursive and would
        // be unrolled to the unwind bound at every call site)
        enc::decode_varint(buf).map(|_| ())
    }
    fn encoded_len(&self) -> usize {
        0
    }
}

pub const B_MESSAGE: u8 = 0;
pub const B_GROUP: u8 = 1;
pub const B_MAP: u8 = 2;
pub const B_SKIP_GROUP: u8 = 3;

#[cfg(all(kani, pilota_verif))]
pub fn budget_one_level<const KIND: u8>() {
    let n: u32 = kani::any();
    let ctx = DecodeContext::verif_with_budget(n);
    // concrete payload byte: a symbolic varint byte makes its length (and every later offset)
    // symbolic for CBMC; the budget `n` is the quantified input here
    let v: u8 = 0x2a;
    match KIND {
        B_MESSAGE => {
            // [len 2][key field 1 varint][v]
            let arr = [2u8, 0x08, v];
            let mut r: &[u8] = &arr[..];
            let mut p = Probe::default();
            let x = enc::message::merge(WireType::LengthDelimited, &mut p, &mut r, ctx);
            if n == 0 {
                kani::assert(x.is_err() && p.calls == 0, "C10: nesting beyond the budget is rejected before descending");
            } else {
                kani::assert(x.is_ok() && p.seen == Some(n - 1) && p.calls == 1, "C10: one nesting level consumes exactly one unit of the recursion budget");
            }
            core::mem::forget(x);
        }
        B_GROUP => {
            // group tag 3: [key 1 varint][v][end group 3]
            let arr = [0x08u8, v, 0x1c];
            let mut r: &[u8] = &arr[..];
            let mut p = Probe::default();
            let x = enc::group::merge(3, WireType::StartGroup, &mut p, &mut r, ctx);
            if n == 0 {
                kani::assert(x.is_err() && p.calls == 0, "C10: nesting beyond the budget is rejected before descending");
            } else {
                kani::assert(x.is_ok() && p.seen == Some(n - 1), "C10: one nesting level consumes exactly one unit of the recursion budget");
            }
            core::mem::forget(x);
        }
        B_MAP => {
            // entry: [len 4][key=1 varint v][value=2 varint v]
            use std::collections::BTreeMap;
            let arr = [4u8, 0x08, v, 0x10, v];
            let mut r: &[u8] = &arr[..];
            let mut m: BTreeMap<i32, i32> = BTreeMap::new();
            let x = enc::btree_map::merge(enc::int32::merge::<&[u8], i32>, enc::int32::merge::<&[u8], i32>, &mut m, &mut r, ctx);
            if n == 0 {
                kani::assert(x.is_err() && m.is_empty(), "C10: a map entry beyond the budget is rejected before descending");
            } else {
                kani::assert(x.is_ok() && m.len() == 1, "C10: a map entry within the budget decodes");
            }
            core::mem::forget(x);
            core::mem::forget(m);
        }
        _ => {
            // unknown group 1 containing an unknown group 2 containing one varint
            let arr = [0x13u8, 0x08, v, 0x14, 0x0c];
            let mut r: &[u8] = &arr[..];
            let x = enc::skip_field(WireType::StartGroup, 1, &mut r, ctx);
            if n <= 1 {
                kani::assert(x.is_err(), "C10: group nesting beyond the budget is rejected");
            } else {
                kani::assert(x.is_ok() && r.is_empty(), "C10: nested unknown groups within the budget are skipped exactly");
            }
            core::mem::forget(x);
        }
    }
    kani::cover!(n == 0, "budget exhausted");
    kani::cover!(n == 100, "fresh budget");
    kani::cover!(true, "reached end");
}
