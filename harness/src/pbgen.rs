//! Generated protobuf messages (corpus/p_scalars.proto), emitted by the current generator.
//!   C05 round trip / encoded_len   C06 wire format vs. the .proto schema (reference model)
//!   C18 merge semantics: last-wins, append, oneof replace, field-wise merge, unknown fields ignored
//! Layouts are concrete per instance (record order, varint lengths); payload bytes symbolic.
//! Varints that sit in front of further records are concrete (a symbolic varint byte makes
//! CBMC treat its length, and every later offset, as symbolic); symbolic varints are placed last.
#![allow(unused)]
use crate::chk;
use crate::gen_pb::ps;
use crate::pb::{okd, sym_varint, C05, C06};
use crate::ref_pb as rp;
use bytes::{Buf, BufMut};
use pilota::prost::Message;

pub const C18: u8 = 18;

/// (w) Small{ sint32 s = 1; fixed32 f = 2 }: bytes vs. schema-driven reference decoder
#[cfg(kani)]
pub fn small_w<const WHICH: u8>() {
    let m = ps::Small { s: kani::any(), f: kani::any() };
    let mut arr = [0u8; 16];
    let n;
    {
        let mut w: &mut [u8] = &mut arr[..];
        let r = m.encode(&mut w);
        chk!(WHICH == C05, r.is_ok(), "C05: encode into a large enough buffer succeeds");
        core::mem::forget(r);
        n = 16 - w.len();
    }
    chk!(WHICH == C05, n == m.encoded_len(), "C05: encoded_len equals bytes written (generated message)");
    if WHICH == C06 {
        // independent decoder driven by the .proto: field 1 is sint32 (ZigZag varint), field 2 fixed32
        let mut rd = rp::Rd::new(&arr[..n]);
        let (mut gs, mut gf) = (0i32, 0u32);
        let mut good = true;
        let mut k = 0;
        while good && !rd.done() && k < 2 {
            match rd.key() {
                Some((1, 0)) => match rd.varint() {
                    Some(u) => {
                        good &= u <= u32::MAX as u64; // sint32 is a 32-bit zigzag value
                        gs = rp::unzigzag32(u as u32);
                    }
                    None => good = false,
                },
                Some((2, 5)) => match rd.fixed32() {
                    Some(u) => gf = u,
                    None => good = false,
                },
                _ => good = false,
            }
            k += 1;
        }
        good &= rd.done() && gs == m.s && gf == m.f;
        chk!(true, good, "C06: a schema-driven reference decoder recovers the message (sint32 is ZigZag, fixed32 little-endian)");
    }
    kani::cover!(m.s < 0, "negative sint32");
    kani::cover!(true, "reached end");
}

/// (r) Small from reference bytes. ORDER 0: f then s (symbolic zigzag varint of LS bytes, last);
/// ORDER 1: s (one concrete-length byte, symbolic 7 bits are NOT possible, so s = concrete -3) then f.
#[cfg(kani)]
pub fn small_r<const ORDER: u8, const LS: usize>() {
    let f: [u8; 4] = kani::any();
    let mut o = rp::Out::<16>::new();
    let expect_s;
    if ORDER == 0 {
        let (vs, us) = sym_varint::<LS>();
        if LS == 5 {
            kani::assume(us <= u32::MAX as u64);
        }
        o.put(0x15);
        o.put_all(&f);
        o.put(0x08);
        o.put_all(&vs);
        expect_s = rp::unzigzag32(us as u32);
    } else {
        o.put(0x08);
        o.put(0x05); // zigzag(-3) = 5
        o.put(0x15);
        o.put_all(&f);
        expect_s = -3;
    }
    let mut r: &[u8] = &o.b[..o.n];
    let got = okd(ps::Small::decode(&mut r));
    kani::assert(got.f == u32::from_le_bytes(f), "C06: fixed32 field decodes from a conforming encoding, in any field order");
    kani::assert(got.s == expect_s, "C06: sint32 field decodes from its ZigZag varint");
    kani::cover!(expect_s < 0, "negative sint32");
    kani::cover!(true, "reached end");
}

pub const U_NONE: u8 = 0;
pub const U_VARINT: u8 = 1;
pub const U_I64: u8 = 2;
pub const U_LEN: u8 = 3;
pub const U_I32: u8 = 4;
pub const U_GROUP: u8 = 5;
pub const U_GROUP_NESTED: u8 = 6; // group 9 { group 5 { fixed32 } fixed32 }

fn put_unknown<const N: usize>(o: &mut rp::Out<N>, kind: u8, p: &[u8; 8]) {
    // unknown field number 9
    match kind {
        U_VARINT => {
            o.put(0x48);
            o.put(0x2a);
        }
        U_I64 => {
            o.put(0x49);
            o.put_all(p);
        }
        U_LEN => {
            o.put(0x4a);
            o.put(2);
            o.put(p[0]);
            o.put(p[1]);
        }
        U_I32 => {
            o.put(0x4d);
            o.put_all(&p[..4]);
        }
        U_GROUP => {
            o.put(0x4b);
            o.put(0x15); // inner field 2, fixed32
            o.put_all(&p[..4]);
            o.put(0x4c);
        }
        U_GROUP_NESTED => {
            o.put(0x4b); // start group 9
            o.put(0x2b); // start group 5 (a different field number)
            o.put(0x15);
            o.put_all(&p[..4]);
            o.put(0x2c); // end group 5
            o.put(0x15);
            o.put_all(&p[4..]);
            o.put(0x4c); // end group 9
        }
        _ => {}
    }
}

/// C18: last-wins for singular scalars + unknown field of kind UK between the two records
#[cfg(kani)]
pub fn small_concat<const UK: u8>() {
    let fa: [u8; 4] = kani::any();
    let fb: [u8; 4] = kani::any();
    let p: [u8; 8] = kani::any();
    let mut o = rp::Out::<32>::new();
    o.put(0x15);
    o.put_all(&fa);
    put_unknown(&mut o, UK, &p);
    o.put(0x15);
    o.put_all(&fb);
    let mut r: &[u8] = &o.b[..o.n];
    let got = okd(ps::Small::decode(&mut r));
    kani::assert(got.f == u32::from_le_bytes(fb), "C18: a singular scalar takes its last occurrence; unknown fields in between are ignored");
    kani::assert(got.s == 0, "C18: fields absent from the input keep their default");
    kani::cover!(true, "reached end");
}

/// C18: repeated fields accumulate in order across packed and unpacked records
#[cfg(kani)]
pub fn rep_concat<const UK: u8>() {
    let a: [u8; 4] = kani::any();
    let b: [u8; 4] = kani::any();
    let c: [u8; 4] = kani::any();
    let p: [u8; 8] = kani::any();
    let mut o = rp::Out::<32>::new();
    // r_fixed32 = 3: unpacked record, unknown, packed record with two elements
    o.put(0x1d);
    o.put_all(&a);
    put_unknown(&mut o, UK, &p);
    o.put(0x1a);
    o.put(8);
    o.put_all(&b);
    o.put_all(&c);
    let mut r: &[u8] = &o.b[..o.n];
    let got = okd(ps::Rep::decode(&mut r));
    kani::assert(got.r_fixed32.len() == 3, "C18: repeated fields accumulate across records, packed or unpacked");
    kani::assert(got.r_fixed32[0] == u32::from_le_bytes(a) && got.r_fixed32[1] == u32::from_le_bytes(b) && got.r_fixed32[2] == u32::from_le_bytes(c), "C18: repeated elements keep their order");
    kani::assert(got.r_int32.is_empty() && got.r_string.is_empty(), "C18: other repeated fields stay empty");
    kani::cover!(true, "reached end");
    core::mem::forget(got);
}

/// C18: a later oneof member replaces an earlier one; embedded messages merge field-wise
#[cfg(kani)]
pub fn nested_concat<const UK: u8>() {
    let f1: [u8; 4] = kani::any();
    let f2: [u8; 4] = kani::any();
    let p: [u8; 8] = kani::any();
    let mut o = rp::Out::<48>::new();
    // small = 1 { f = f1 }
    o.put(0x0a);
    o.put(5);
    o.put(0x15);
    o.put_all(&f1);
    // oneof: c_int = 2 (value 7)
    o.put(0x10);
    o.put(7);
    put_unknown(&mut o, UK, &p);
    // small = 1 { s = -3 }   (merges into the first occurrence)
    o.put(0x0a);
    o.put(2);
    o.put(0x08);
    o.put(0x05);
    // oneof: c_msg = 4 { f = f2 }  (replaces c_int)
    o.put(0x22);
    o.put(5);
    o.put(0x15);
    o.put_all(&f2);
    let mut r: &[u8] = &o.b[..o.n];
    let got = okd(ps::Nested::decode(&mut r));
    match &got.small {
        Some(s) => kani::assert(s.f == u32::from_le_bytes(f1) && s.s == -3, "C18: embedded messages merge field-wise across occurrences"),
        None => kani::assert(false, "C18: embedded message present"),
    }
    match &got.choice {
        Some(ps::nested::Choice::CMsg(m)) => kani::assert(m.f == u32::from_le_bytes(f2), "C18: a later oneof member replaces an earlier one"),
        _ => kani::assert(false, "C18: a later oneof member replaces an earlier one"),
    }
    kani::assert(got.opt.is_none() && got.smalls.is_empty(), "C18: absent fields stay empty");
    kani::cover!(true, "reached end");
    core::mem::forget(got);
}
