//! C09(b) instances: emitted Inner decoder, one instance per cut point. Cut S8 applies: the recursive default skipper is replaced by its contract ("Err, or consume exactly n <= remaining"), which C07 establishes for the real skipper; the valid skeleton never reaches the skipper, only symex paths behind an already-failed read do.
#![allow(unused)]
use crate::cuts;
use crate::protos::*;
crate::proof_skipstub!{ #[kani::unwind(5)] fn c09_x_gen_inner_cut00_bin() { cuts::inner_cut::<PBin, 0>() } }
crate::proof_skipstub!{ #[kani::unwind(5)] fn c09_x_gen_inner_cut01_bin() { cuts::inner_cut::<PBin, 1>() } }
crate::proof_skipstub!{ #[kani::unwind(5)] fn c09_x_gen_inner_cut02_bin() { cuts::inner_cut::<PBin, 2>() } }
crate::proof_skipstub!{ #[kani::unwind(5)] fn c09_x_gen_inner_cut03_bin() { cuts::inner_cut::<PBin, 3>() } }
crate::proof_skipstub!{ #[kani::unwind(5)] fn c09_x_gen_inner_cut04_bin() { cuts::inner_cut::<PBin, 4>() } }
crate::proof_skipstub!{ #[kani::unwind(5)] fn c09_x_gen_inner_cut05_bin() { cuts::inner_cut::<PBin, 5>() } }
crate::proof_skipstub!{ #[kani::unwind(5)] fn c09_x_gen_inner_cut06_bin() { cuts::inner_cut::<PBin, 6>() } }
crate::proof_skipstub!{ #[kani::unwind(5)] fn c09_x_gen_inner_cut07_bin() { cuts::inner_cut::<PBin, 7>() } }
crate::proof_skipstub!{ #[kani::unwind(5)] fn c09_x_gen_inner_cut08_bin() { cuts::inner_cut::<PBin, 8>() } }
crate::proof_skipstub!{ #[kani::unwind(5)] fn c09_x_gen_inner_cut09_bin() { cuts::inner_cut::<PBin, 9>() } }
crate::proof_skipstub!{ #[kani::unwind(5)] fn c09_x_gen_inner_cut10_bin() { cuts::inner_cut::<PBin, 10>() } }
crate::proof_skipstub!{ #[kani::unwind(5)] fn c09_x_gen_inner_cut11_bin() { cuts::inner_cut::<PBin, 11>() } }
crate::proof_skipstub!{ #[kani::unwind(5)] fn c09_x_gen_inner_cut12_bin() { cuts::inner_cut::<PBin, 12>() } }
crate::proof_skipstub!{ #[kani::unwind(5)] fn c09_x_gen_inner_cut13_bin() { cuts::inner_cut::<PBin, 13>() } }
crate::proof_skipstub!{ #[kani::unwind(5)] fn c09_x_gen_inner_cut14_bin() { cuts::inner_cut::<PBin, 14>() } }
crate::proof_skipstub!{ #[kani::unwind(5)] fn c09_x_gen_inner_cut15_bin() { cuts::inner_cut::<PBin, 15>() } }
crate::proof_skipstub!{ #[kani::unwind(5)] fn c09_x_gen_inner_cut16_bin() { cuts::inner_cut::<PBin, 16>() } }
crate::proof_skipstub!{ #[kani::unwind(5)] fn c09_q_gen_inner_cut17_bin() { cuts::inner_cut::<PBin, 17>() } }
crate::proof_skipstub!{ #[kani::unwind(5)] fn c09_x_gen_inner_cut05_le() { cuts::inner_cut::<PLe, 5>() } }
crate::proof_skipstub!{ #[kani::unwind(5)] fn c09_x_gen_inner_cut12_le() { cuts::inner_cut::<PLe, 12>() } }
crate::proof_skipstub!{ #[kani::unwind(5)] fn c09_x_gen_inner_cut15_le() { cuts::inner_cut::<PLe, 15>() } }
crate::proof_skipstub!{ #[kani::unwind(5)] fn c09_x_gen_inner_cut16_le() { cuts::inner_cut::<PLe, 16>() } }
crate::proof_skipstub!{ #[kani::unwind(5)] fn c09_t_gen_inner_cut17_le() { cuts::inner_cut::<PLe, 17>() } }
crate::proof_skipstub!{ #[kani::unwind(5)] fn c09_x_gen_inner_corrupt_len_bin() { cuts::inner_corrupt_len::<PBin>() } }
