//! C02 (and the generated-type half of C04) harness instances.
#![allow(unused)]
use crate::c02::{self, C02, C04};
use crate::protos::*;
use paste::paste;

macro_rules! g {
    ($tier:ident, $name:ident, $pn:ident, $p:ty, $unw:expr, $($call:tt)*) => { paste! {
        crate::proof!{ #[kani::unwind($unw)] fn [<c02_ $tier _gen_ $name _ $pn>]() { $($call)*::<$p, {C02}>() } }
        crate::proof!{ #[kani::unwind($unw)] fn [<c04_ $tier _gen_ $name _ $pn>]() { $($call)*::<$p, {C04}>() } }
    }};
}
#[cfg(kani)]
mod a {
    use super::*;
    pub fn lists_0<P: Proto, const W: u8>() { c02::lists::<P, W, 0, 0, 0>() }
    pub fn lists_2_1_1<P: Proto, const W: u8>() { c02::lists::<P, W, 2, 1, 1>() }
    pub fn lists_1_2_0<P: Proto, const W: u8>() { c02::lists::<P, W, 1, 2, 0>() }
    pub fn maps_0<P: Proto, const W: u8>() { c02::maps::<P, W, 0>() }
    pub fn maps_1<P: Proto, const W: u8>() { c02::maps::<P, W, 1>() }
    pub fn tree_0<P: Proto, const W: u8>() { c02::tree::<P, W, 0>() }
    pub fn tree_1<P: Proto, const W: u8>() { c02::tree::<P, W, 1>() }
    pub fn tree_2<P: Proto, const W: u8>() { c02::tree::<P, W, 2>() }
    pub fn defaults_absent<P: Proto, const W: u8>() { c02::defaults::<P, W, false>() }
    pub fn defaults_present<P: Proto, const W: u8>() { c02::defaults::<P, W, true>() }
    pub fn result_get_ok<P: Proto, const W: u8>() { c02::result_get::<P, W, 0>() }
    pub fn result_get_exc<P: Proto, const W: u8>() { c02::result_get::<P, W, 1>() }
}
// tiers: q = quick and thorough, t = thorough only, x = not registered (did not reach a verdict
// within the caps on the unchanged tree, or not yet calibrated; kept so that it can be run by hand
// with `bin/check C02 --only <name>`)
macro_rules! g_protos {
    ($tb:ident, $tl:ident, $tc:ident, $name:ident, $unw_bin:expr, $unw_cmp:expr, $($call:tt)*) => {
        g!($tb, $name, bin, PBin, $unw_bin, $($call)*);
        g!($tl, $name, le, PLe, $unw_bin, $($call)*);
        g!($tl, $name, unchecked, PUnchecked, $unw_bin, $($call)*);
        g!($tc, $name, compact, PCompact, $unw_cmp, $($call)*);
    };
}
g_protos!(q, t, x, inner_none, 4, 7, c02::inner_none);
g_protos!(q, t, x, inner_some2, 4, 7, c02::inner_some2);
g_protos!(x, x, x, outer, 6, 7, c02::outer);
g_protos!(x, x, x, outer_noinner, 4, 7, c02::outer_noinner);
g_protos!(x, x, x, scalars_num, 11, 12, c02::scalars_num);
g_protos!(x, x, x, scalars_rest, 7, 12, c02::scalars_rest);
g_protos!(x, x, x, lists_0, 5, 7, a::lists_0);
g_protos!(x, x, x, lists_2_1_1, 6, 7, a::lists_2_1_1);
g_protos!(x, x, x, lists_1_2_0, 6, 7, a::lists_1_2_0);
g_protos!(q, x, x, maps_0, 4, 7, a::maps_0);
g_protos!(x, x, x, maps_1, 4, 7, a::maps_1);
g_protos!(q, t, x, union_a, 4, 7, c02::union_a);
g_protos!(x, x, x, union_b, 4, 7, c02::union_b);
g_protos!(x, x, x, union_c, 4, 7, c02::union_c);
g_protos!(q, t, x, defaults_absent, 4, 7, a::defaults_absent);
g_protos!(x, x, x, defaults_present, 6, 7, a::defaults_present);
g_protos!(x, x, x, tree_0, 4, 7, a::tree_0);
g_protos!(q, t, x, tree_1, 4, 7, a::tree_1);
g_protos!(q, x, x, tree_2, 4, 7, a::tree_2);
g_protos!(q, t, x, typedef_id, 4, 12, c02::typedef_id);
g_protos!(q, t, x, enum_color, 4, 7, c02::enum_color);
g_protos!(q, x, x, exception_oops, 4, 12, c02::exception_oops);
g_protos!(q, t, x, args_get, 4, 12, c02::args_get);
g_protos!(q, x, x, result_get_ok, 4, 7, a::result_get_ok);
g_protos!(x, x, x, result_get_exc, 4, 12, a::result_get_exc);
g_protos!(q, t, x, result_void, 4, 7, c02::result_void);
g_protos!(q, t, x, aliases, 6, 12, c02::aliases);
