//! C11 harness instances.
#![allow(unused)]
use crate::c11;
use crate::skip::*;
use paste::paste;
macro_rules! c11i {
    ($tier:ident, $body:ident, $shape:ident, $unw:expr) => { paste! {
        crate::proof!{ #[kani::unwind($unw)] fn [<c11_ $tier _ $body _ $shape:lower>]() { c11::$body::<{$shape}>() } }
    }};
}
macro_rules! c11_shape {
    ($tw:ident, $tr:ident, $ts:ident, $shape:ident, $unw:expr) => {
        c11i!($tw, write_diff_bytesmut, $shape, $unw);
        c11i!($tw, write_diff_linked, $shape, $unw);
        c11i!($tr, read_diff, $shape, $unw);
        c11i!($ts, skip_diff, $shape, $unw);
    };
}
c11_shape!(q, t, t, V_BOOL, 5);
c11_shape!(t, t, t, V_I8, 5);
c11_shape!(q, q, t, V_I16, 5);
c11_shape!(q, t, q, V_I32, 5);
c11_shape!(q, q, t, V_I64, 5);
c11_shape!(q, t, t, V_DOUBLE, 5);
c11_shape!(q, q, q, V_UUID, 17);
c11_shape!(q, q, q, V_BINARY2, 5);
c11_shape!(t, t, t, V_BINARY0, 5);
c11_shape!(q, q, t, V_LIST_I32_2, 5);
c11_shape!(t, t, t, V_LIST_BOOL_2, 5);
c11_shape!(t, t, q, V_LIST_EMPTY, 5);
c11_shape!(t, t, q, V_LIST_BIN_1, 5);
c11_shape!(t, t, t, V_SET_I8_2, 5);
c11_shape!(t, q, t, V_MAP_I8_BIN, 5);
c11_shape!(t, t, q, V_MAP_EMPTY, 5);
c11_shape!(t, t, q, V_SET_EMPTY_BIN, 5);
c11_shape!(t, t, t, V_SET_EMPTY_STRUCT, 5);
c11_shape!(t, t, t, V_MAP_I16_I64, 5);
c11_shape!(q, q, q, V_STRUCT_FLAT, 5);
c11_shape!(t, t, t, V_STRUCT_NEST, 5);
c11_shape!(t, t, t, V_STRUCT_EMPTY, 5);
c11_shape!(t, t, t, V_LIST_STRUCT, 5);
