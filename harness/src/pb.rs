//! Protobuf runtime codecs (pilota::prost::encoding) on slice buffers.
//!   C05 round trip + encoded_len agreement   C06 bytes vs. reference model of the encoding guide
//!   C10 totality on arbitrary slices
#![allow(unused)]
use crate::chk;
use crate::ref_pb as rp;
use bytes::{Buf, BufMut, Bytes};
use pilota::prost::encoding::{self as enc, DecodeContext, WireType};
use pilota::prost::{DecodeError, Message};

pub const C05: u8 = 5;
pub const C06: u8 = 6;

#[inline(always)]
pub fn okd<T>(r: Result<T, DecodeError>) -> T {
    match r {
        Ok(v) => v,
        Err(e) => {
            core::mem::forget(e);
            #[cfg(kani)]
            {
                kani::assert(false, "unexpected DecodeError from the real code");
                kani::assume(false);
            }
            loop {}
        }
    }
}

#[cfg(kani)]
pub fn any_wire_type() -> WireType {
    let k: u8 = kani::any();
    kani::assume(k < 6);
    match k {
        0 => WireType::Varint,
        1 => WireType::SixtyFourBit,
        2 => WireType::LengthDelimited,
        3 => WireType::StartGroup,
        4 => WireType::EndGroup,
        _ => WireType::ThirtyTwoBit,
    }
}

#[cfg(kani)]
pub fn any_tag(max: u32) -> u32 {
    // max <= 15 selects the concrete tag `max`: with a symbolic tag the key length and with it
    // every later offset is symbolic, which only the scalar harnesses can afford (measured);
    // the key codec itself is verified for every tag in pb_key
    if max <= 15 {
        return max;
    }
    let t: u32 = kani::any();
    kani::assume(t >= enc::MIN_TAG && t <= max);
    t
}

/// LAYOUT 0: exact-size chunk (slice path through "last byte < 0x80");
/// LAYOUT 1: 13-byte chunk (len > 10 path); LAYOUT 2: chained buffer split at a symbolic
/// point (decode_varint_slow when the first chunk ends inside the varint).
#[cfg(kani)]
pub fn pb_varint<const WHICH: u8, const LAYOUT: u8>() {
    let v: u64 = kani::any();
    let mut arr = [0u8; 16];
    let n;
    {
        let mut w: &mut [u8] = &mut arr[..10];
        enc::encode_varint(v, &mut w);
        n = 10 - w.len();
    }
    chk!(WHICH == C05, n == enc::encoded_len_varint(v), "C05: encoded_len_varint equals bytes written");
    let mut o = rp::Out::<16>::new();
    rp::varint(&mut o, v);
    chk!(WHICH == C06, o.eq_arr(&arr, n), "C06: varint bytes equal the reference encoding");
    let (got, consumed) = match LAYOUT {
        0 => {
            let mut r: &[u8] = &arr[..n];
            let g = okd(enc::decode_varint(&mut r));
            (g, n - r.len())
        }
        1 => {
            let mut r: &[u8] = &arr[..13];
            let g = okd(enc::decode_varint(&mut r));
            (g, 13 - r.len())
        }
        _ => {
            let k: usize = kani::any();
            kani::assume(k <= n);
            let mut r = (&arr[..k]).chain(&arr[k..n]);
            let g = okd(enc::decode_varint(&mut r));
            (g, n - r.remaining())
        }
    };
    chk!(WHICH == C05, got == v && consumed == n, "C05: varint decodes to the value and consumes exactly its bytes");
    kani::cover!(n == 10, "ten byte varint");
    kani::cover!(true, "reached end");
}

#[cfg(kani)]
pub fn pb_key<const WHICH: u8>() {
    let tag = any_tag(enc::MAX_TAG);
    let wt = any_wire_type();
    let mut arr = [0u8; 16];
    let n;
    {
        let mut w: &mut [u8] = &mut arr[..];
        enc::encode_key(tag, wt, &mut w);
        n = 16 - w.len();
    }
    chk!(WHICH == C05, n == enc::key_len(tag), "C05: key_len equals bytes written");
    let mut o = rp::Out::<16>::new();
    rp::key(&mut o, tag, wt as u8);
    chk!(WHICH == C06, o.eq_arr(&arr, n), "C06: key bytes equal the reference encoding");
    let mut r: &[u8] = &arr[..n];
    let (t2, w2) = okd(enc::decode_key(&mut r));
    chk!(WHICH == C05, t2 == tag && w2 == wt && r.is_empty(), "C05: key decodes to tag and wire type");
    kani::cover!(n == 5, "five byte key");
    kani::cover!(true, "reached end");
}

/// One scalar module: encode / encoded_len / merge, with the expected reference bytes.
macro_rules! pb_scalar {
    ($fname:ident, $m:ident, $ty:ty, $wt:expr, $rwt:expr, $mk:expr, $same:expr, $refval:expr) => {
        #[cfg(kani)]
        pub fn $fname<const WHICH: u8, const TAGMAX: u32>() {
            let tag = any_tag(TAGMAX);
            let v: $ty = ($mk)();
            let mut arr = [0u8; 16];
            let n;
            {
                let mut w: &mut [u8] = &mut arr[..];
                enc::$m::encode(tag, &v, &mut w);
                n = 16 - w.len();
            }
            chk!(WHICH == C05, n == enc::$m::encoded_len(tag, &v), "C05: encoded_len equals bytes written");
            if WHICH == C06 {
                let mut o = rp::Out::<16>::new();
                rp::key(&mut o, tag, $rwt);
                ($refval)(&mut o, v);
                chk!(true, o.eq_arr(&arr, n), "C06: field bytes equal the reference encoding");
            }
            let mut r: &[u8] = &arr[..n];
            let (t2, w2) = okd(enc::decode_key(&mut r));
            chk!(WHICH == C05, t2 == tag && w2 == $wt, "C05: key decodes to tag and declared wire type");
            let mut out: $ty = Default::default();
            okd(enc::$m::merge(w2, &mut out, &mut r, DecodeContext::default()));
            chk!(WHICH == C05, ($same)(out, v), "C05: value decodes to the value encoded");
            chk!(WHICH == C05, r.is_empty(), "C05: decoder consumed exactly the encoded bytes");
            kani::cover!(true, "reached end");
        }
    };
}
fn eq<T: PartialEq>(a: T, b: T) -> bool {
    a == b
}
#[cfg(kani)]
fn anyv<T: kani::Arbitrary>() -> T {
    kani::any()
}
#[cfg(kani)]
fn anyf32() -> f32 {
    f32::from_bits(kani::any())
}
#[cfg(kani)]
fn anyf64() -> f64 {
    f64::from_bits(kani::any())
}
pb_scalar!(pb_bool, bool, bool, WireType::Varint, rp::WT_VARINT, anyv::<bool>, eq::<bool>, |o: &mut rp::Out<16>, v: bool| rp::varint(o, v as u64));
pb_scalar!(pb_int32, int32, i32, WireType::Varint, rp::WT_VARINT, anyv::<i32>, eq::<i32>, |o: &mut rp::Out<16>, v: i32| rp::varint(o, rp::int32_u64(v)));
pb_scalar!(pb_int64, int64, i64, WireType::Varint, rp::WT_VARINT, anyv::<i64>, eq::<i64>, |o: &mut rp::Out<16>, v: i64| rp::varint(o, v as u64));
pb_scalar!(pb_uint32, uint32, u32, WireType::Varint, rp::WT_VARINT, anyv::<u32>, eq::<u32>, |o: &mut rp::Out<16>, v: u32| rp::varint(o, v as u64));
pb_scalar!(pb_uint64, uint64, u64, WireType::Varint, rp::WT_VARINT, anyv::<u64>, eq::<u64>, |o: &mut rp::Out<16>, v: u64| rp::varint(o, v));
pb_scalar!(pb_sint32, sint32, i32, WireType::Varint, rp::WT_VARINT, anyv::<i32>, eq::<i32>, |o: &mut rp::Out<16>, v: i32| rp::varint(o, rp::zigzag32(v)));
pb_scalar!(pb_sint64, sint64, i64, WireType::Varint, rp::WT_VARINT, anyv::<i64>, eq::<i64>, |o: &mut rp::Out<16>, v: i64| rp::varint(o, rp::zigzag64(v)));
pb_scalar!(pb_fixed32, fixed32, u32, WireType::ThirtyTwoBit, rp::WT_I32, anyv::<u32>, eq::<u32>, |o: &mut rp::Out<16>, v: u32| rp::fixed32(o, v));
pb_scalar!(pb_fixed64, fixed64, u64, WireType::SixtyFourBit, rp::WT_I64, anyv::<u64>, eq::<u64>, |o: &mut rp::Out<16>, v: u64| rp::fixed64(o, v));
pb_scalar!(pb_sfixed32, sfixed32, i32, WireType::ThirtyTwoBit, rp::WT_I32, anyv::<i32>, eq::<i32>, |o: &mut rp::Out<16>, v: i32| rp::fixed32(o, v as u32));
pb_scalar!(pb_sfixed64, sfixed64, i64, WireType::SixtyFourBit, rp::WT_I64, anyv::<i64>, eq::<i64>, |o: &mut rp::Out<16>, v: i64| rp::fixed64(o, v as u64));
pb_scalar!(pb_float, float, f32, WireType::ThirtyTwoBit, rp::WT_I32, anyf32, |a: f32, b: f32| a.to_bits() == b.to_bits(), |o: &mut rp::Out<16>, v: f32| rp::fixed32(o, v.to_bits()));
pb_scalar!(pb_double, double, f64, WireType::SixtyFourBit, rp::WT_I64, anyf64, |a: f64, b: f64| a.to_bits() == b.to_bits(), |o: &mut rp::Out<16>, v: f64| rp::fixed64(o, v.to_bits()));

pub const A_STRING: u8 = 0;
pub const A_FASTSTR: u8 = 1;
pub const A_BYTES: u8 = 2;
pub const A_VEC: u8 = 3;

/// length-delimited scalars with a payload of exactly LEN bytes
#[cfg(kani)]
pub fn pb_blob<const WHICH: u8, const API: u8, const LEN: usize, const TAGMAX: u32>() {
    let tag = any_tag(TAGMAX);
    let payload: [u8; LEN] = kani::any();
    if API == A_STRING || API == A_FASTSTR {
        let mut i = 0;
        while i < LEN {
            kani::assume(payload[i] < 0x80);
            i += 1;
        }
    }
    let leaked: &'static [u8; LEN] = Box::leak(Box::new(payload));
    let s: &'static str = unsafe { core::str::from_utf8_unchecked(&leaked[..]) };
    let mut arr = [0u8; 16];
    let n;
    let el;
    {
        let mut w: &mut [u8] = &mut arr[..];
        match API {
            A_STRING => {
                enc::string::encode(tag, &s, &mut w);
                el = enc::string::encoded_len(tag, &s);
            }
            A_FASTSTR => {
                let f = pilota::FastStr::from_static_str(s);
                enc::faststr::encode(tag, &f, &mut w);
                el = enc::faststr::encoded_len(tag, &f);
                core::mem::forget(f);
            }
            A_BYTES => {
                let b = Bytes::from_static(&leaked[..]);
                enc::bytes::encode(tag, &b, &mut w);
                el = enc::bytes::encoded_len(tag, &b);
                core::mem::forget(b);
            }
            _ => {
                let v: Vec<u8> = leaked.to_vec();
                enc::bytes::encode(tag, &v, &mut w);
                el = enc::bytes::encoded_len(tag, &v);
                core::mem::forget(v);
            }
        }
        n = 16 - w.len();
    }
    chk!(WHICH == C05, n == el, "C05: encoded_len equals bytes written");
    let mut o = rp::Out::<16>::new();
    rp::len_delim(&mut o, tag, &leaked[..]);
    chk!(WHICH == C06, o.eq_arr(&arr, n), "C06: field bytes equal the reference encoding");
    let mut r: &[u8] = &arr[..n];
    let (t2, w2) = okd(enc::decode_key(&mut r));
    chk!(WHICH == C05, t2 == tag && w2 == WireType::LengthDelimited, "C05: key decodes to tag and declared wire type");
    let same = match API {
        A_STRING => {
            let mut out = String::new();
            okd(enc::string::merge(w2, &mut out, &mut r, DecodeContext::default()));
            let e = out.as_bytes() == &leaked[..];
            core::mem::forget(out);
            e
        }
        A_FASTSTR => {
            let mut out = pilota::FastStr::empty();
            okd(enc::faststr::merge(w2, &mut out, &mut r, DecodeContext::default()));
            let e = out.as_bytes() == &leaked[..];
            core::mem::forget(out);
            e
        }
        A_BYTES => {
            let mut out = Bytes::new();
            okd(enc::bytes::merge(w2, &mut out, &mut r, DecodeContext::default()));
            let e = &out[..] == &leaked[..];
            core::mem::forget(out);
            e
        }
        _ => {
            let mut out: Vec<u8> = Vec::new();
            okd(enc::bytes::merge(w2, &mut out, &mut r, DecodeContext::default()));
            let e = &out[..] == &leaked[..];
            core::mem::forget(out);
            e
        }
    };
    chk!(WHICH == C05, same, "C05: value decodes to the value encoded");
    chk!(WHICH == C05, r.is_empty(), "C05: decoder consumed exactly the encoded bytes");
    kani::cover!(true, "reached end");
}

/// repeated scalar with exactly 2 symbolic elements: unpacked and packed forms
macro_rules! pb_repeated {
    ($fname:ident, $m:ident, $ty:ty, $mk:expr, $same:expr) => {
        #[cfg(kani)]
        pub fn $fname<const WHICH: u8, const PACKED: bool>() {
            let tag = any_tag(7);
            let a: $ty = ($mk)();
            let b: $ty = ($mk)();
            let vals = [a, b];
            let mut arr = [0u8; 32];
            let n;
            let el;
            {
                let mut w: &mut [u8] = &mut arr[..];
                if PACKED {
                    enc::$m::encode_packed(tag, &vals[..], &mut w);
                    el = enc::$m::encoded_len_packed(tag, &vals[..]);
                } else {
                    enc::$m::encode_repeated(tag, &vals[..], &mut w);
                    el = enc::$m::encoded_len_repeated(tag, &vals[..]);
                }
                n = 32 - w.len();
            }
            chk!(WHICH == C05, n == el, "C05: encoded_len equals bytes written");
            let mut out: Vec<$ty> = Vec::with_capacity(4);
            let mut r: &[u8] = &arr[..n];
            let mut rounds = 0;
            while !r.is_empty() && rounds < 2 {
                let (t2, w2) = okd(enc::decode_key(&mut r));
                chk!(WHICH == C05, t2 == tag, "C05: key decodes to tag");
                okd(enc::$m::merge_repeated(w2, &mut out, &mut r, DecodeContext::default()));
                rounds += 1;
            }
            chk!(WHICH == C05, r.is_empty(), "C05: decoder consumed exactly the encoded bytes");
            chk!(WHICH == C05, out.len() == 2 && ($same)(out[0], a) && ($same)(out[1], b), "C05: repeated values decode in order");
            kani::cover!(true, "reached end");
            core::mem::forget(out);
        }
    };
}
pb_repeated!(pb_rep_int32, int32, i32, anyv::<i32>, eq::<i32>);
pb_repeated!(pb_rep_sint64, sint64, i64, anyv::<i64>, eq::<i64>);
pb_repeated!(pb_rep_bool, bool, bool, anyv::<bool>, eq::<bool>);
pb_repeated!(pb_rep_fixed32, fixed32, u32, anyv::<u32>, eq::<u32>);
pb_repeated!(pb_rep_double, double, f64, anyf64, |a: f64, b: f64| a.to_bits() == b.to_bits());

/// Hand-written message in the shape pilota-build emits (proto3 scalar fields skipped at default).
#[derive(Debug, Default, Clone, PartialEq)]
pub struct Mini {
    pub a: i32, // int32 a = 1;
    pub b: u64, // fixed64 b = 2;
}
impl Message for Mini {
    fn encode_raw<B: BufMut>(&self, buf: &mut B) {
        if self.a != 0 {
            enc::int32::encode(1, &self.a, buf);
        }
        if self.b != 0 {
            enc::fixed64::encode(2, &self.b, buf);
        }
    }
    fn merge_field<B: Buf>(&mut self, tag: u32, wire_type: WireType, buf: &mut B, ctx: DecodeContext) -> Result<(), DecodeError> {
        match tag {
            1 => enc::int32::merge(wire_type, &mut self.a, buf, ctx),
            2 => enc::fixed64::merge(wire_type, &mut self.b, buf, ctx),
            _ => enc::skip_field(wire_type, tag, buf, ctx),
        }
    }
    fn encoded_len(&self) -> usize {
        (if self.a != 0 { enc::int32::encoded_len(1, &self.a) } else { 0 })
            + (if self.b != 0 { enc::fixed64::encoded_len(2, &self.b) } else { 0 })
    }
}

pub const M_MESSAGE: u8 = 0;
pub const M_GROUP: u8 = 1;
pub const M_TOP: u8 = 2; // Message::encode / decode
pub const M_LENDELIM: u8 = 3; // encode_length_delimited / decode_length_delimited

/// embedded message / group / top-level framing around `Mini` with symbolic fields
#[cfg(kani)]
pub fn pb_message<const WHICH: u8, const MODE: u8>() {
    let tag = any_tag(3);
    let m = Mini { a: kani::any(), b: kani::any() };
    let mut arr = [0u8; 48];
    let n;
    let el;
    {
        let mut w: &mut [u8] = &mut arr[..];
        match MODE {
            M_MESSAGE => {
                enc::message::encode(tag, &m, &mut w);
                el = enc::message::encoded_len(tag, &m);
            }
            M_GROUP => {
                enc::group::encode(tag, &m, &mut w);
                el = enc::group::encoded_len(tag, &m);
            }
            M_TOP => {
                let r = m.encode(&mut w);
                chk!(WHICH == C05, r.is_ok(), "C05: encode into a large enough buffer succeeds");
                core::mem::forget(r);
                el = m.encoded_len();
            }
            _ => {
                let r = m.encode_length_delimited(&mut w);
                chk!(WHICH == C05, r.is_ok(), "C05: encode into a large enough buffer succeeds");
                core::mem::forget(r);
                el = m.encoded_len() + pilota::prost::length_delimiter_len(m.encoded_len());
            }
        }
        n = 48 - w.len();
    }
    chk!(WHICH == C05, n == el, "C05: encoded_len equals bytes written");
    if WHICH == C06 {
        // reference decoder walks the bytes
        let mut rd = rp::Rd::new(&arr[..n]);
        let mut good = true;
        let mut end = n;
        match MODE {
            M_MESSAGE => {
                good &= rd.key() == Some((tag, rp::WT_LEN));
                match rd.varint() {
                    Some(l) => good &= rd.pos + l as usize == n,
                    None => good = false,
                }
            }
            M_GROUP => {
                good &= rd.key() == Some((tag, rp::WT_SGROUP));
                end = n - rp::key_len(tag);
            }
            M_TOP => {}
            _ => match rd.varint() {
                Some(l) => good &= rd.pos + l as usize == n,
                None => good = false,
            },
        }
        let (mut ga, mut gb) = (0i32, 0u64);
        let mut k = 0;
        while good && rd.pos < end && k < 2 {
            match rd.key() {
                Some((1, 0)) => match rd.varint() {
                    Some(u) => ga = u as i32,
                    None => good = false,
                },
                Some((2, 1)) => match rd.fixed64() {
                    Some(u) => gb = u,
                    None => good = false,
                },
                _ => good = false,
            }
            k += 1;
        }
        good &= rd.pos == end && ga == m.a && gb == m.b;
        if MODE == M_GROUP && good {
            good &= rd.key() == Some((tag, rp::WT_EGROUP)) && rd.pos == n;
        }
        chk!(true, good, "C06: reference decoder recovers the embedded message");
    }
    let mut r: &[u8] = &arr[..n];
    let mut out = Mini::default();
    match MODE {
        M_MESSAGE => {
            let (t2, w2) = okd(enc::decode_key(&mut r));
            chk!(WHICH == C05, t2 == tag && w2 == WireType::LengthDelimited, "C05: key decodes");
            okd(enc::message::merge(w2, &mut out, &mut r, DecodeContext::default()));
        }
        M_GROUP => {
            let (t2, w2) = okd(enc::decode_key(&mut r));
            chk!(WHICH == C05, t2 == tag && w2 == WireType::StartGroup, "C05: key decodes");
            okd(enc::group::merge(t2, w2, &mut out, &mut r, DecodeContext::default()));
        }
        M_TOP => {
            out = okd(Mini::decode(&mut r));
        }
        _ => {
            out = okd(Mini::decode_length_delimited(&mut r));
        }
    }
    chk!(WHICH == C05, out == m, "C05: message decodes to the value encoded");
    chk!(WHICH == C05, r.is_empty(), "C05: decoder consumed exactly the encoded bytes");
    kani::cover!(m.a != 0 && m.b != 0, "both fields present");
    kani::cover!(true, "reached end");
}

/// ordered map<int32, fixed64> with one symbolic entry (key=1 / value=2 entry message)
#[cfg(kani)]
pub fn pb_btree_map<const WHICH: u8>() {
    use std::collections::BTreeMap;
    let tag = any_tag(4);
    let k: i32 = kani::any();
    let v: u64 = kani::any();
    let mut m: BTreeMap<i32, u64> = BTreeMap::new();
    m.insert(k, v);
    let mut arr = [0u8; 48];
    let n;
    let el;
    {
        let mut w: &mut [u8] = &mut arr[..];
        enc::btree_map::encode(enc::int32::encode::<&mut [u8], i32>, enc::int32::encoded_len::<i32>, enc::fixed64::encode, enc::fixed64::encoded_len, tag, &m, &mut w);
        el = enc::btree_map::encoded_len(enc::int32::encoded_len::<i32>, enc::fixed64::encoded_len, tag, &m);
        n = 48 - w.len();
    }
    chk!(WHICH == C05, n == el, "C05: encoded_len equals bytes written");
    if WHICH == C06 {
        let mut rd = rp::Rd::new(&arr[..n]);
        let mut good = rd.key() == Some((tag, rp::WT_LEN));
        match rd.varint() {
            Some(l) => good &= rd.pos + l as usize == n,
            None => good = false,
        }
        let (mut gk, mut gv) = (0i32, 0u64);
        let mut i = 0;
        while good && rd.pos < n && i < 2 {
            match rd.key() {
                Some((1, 0)) => match rd.varint() {
                    Some(u) => gk = u as i32,
                    None => good = false,
                },
                Some((2, 1)) => match rd.fixed64() {
                    Some(u) => gv = u,
                    None => good = false,
                },
                _ => good = false,
            }
            i += 1;
        }
        good &= rd.pos == n && gk == k && gv == v;
        chk!(true, good, "C06: map entry is a key=1/value=2 message the reference decoder recovers");
    }
    let mut r: &[u8] = &arr[..n];
    let (t2, w2) = okd(enc::decode_key(&mut r));
    chk!(WHICH == C05, t2 == tag && w2 == WireType::LengthDelimited, "C05: key decodes");
    let mut out: BTreeMap<i32, u64> = BTreeMap::new();
    okd(enc::btree_map::merge(enc::int32::merge::<&[u8], i32>, enc::fixed64::merge, &mut out, &mut r, DecodeContext::default()));
    chk!(WHICH == C05, r.is_empty(), "C05: decoder consumed exactly the encoded bytes");
    chk!(WHICH == C05, out.len() == 1 && out.get(&k) == Some(&v), "C05: map entry decodes to the entry encoded");
    kani::cover!(k == 0 && v == 0, "default key and value");
    kani::cover!(true, "reached end");
    core::mem::forget(out);
    core::mem::forget(m);
}

// ------------------------------------------------------------------------------------------
// Decomposed harnesses for structures that contain symbolic-LENGTH varints followed by more
// data (embedded messages, groups, maps, repeated varint fields). The monolithic
// encode->decode harness does not finish within the quick cap because every offset after
// such a varint is symbolic. Instead:
//   (w) encode(v) == reference encoding of v, for every v            [also C05 len, C06]
//   (r) decode inverts the reference encoding; one instance per varint length class, with the
//       payload bits symbolic (this also feeds non-canonical, zero-padded varints)
// (w) and (r) give decode(encode(v)) == v for every v.

/// varint of exactly L bytes with symbolic payload bits; returns (bytes, value it denotes)
#[cfg(kani)]
pub fn sym_varint<const L: usize>() -> ([u8; L], u64) {
    let raw: [u8; L] = kani::any();
    let mut out = [0u8; L];
    let mut v: u64 = 0;
    let mut i = 0;
    while i < L {
        let payload = raw[i] & 0x7f;
        if i == 9 {
            kani::assume(payload <= 1);
        }
        out[i] = if i + 1 < L { payload | 0x80 } else { payload };
        v |= (payload as u64) << (7 * i as u32);
        i += 1;
    }
    (out, v)
}

/// (w) for `Mini` under the four framings
#[cfg(kani)]
pub fn pb_message_w<const WHICH: u8, const MODE: u8>() {
    let tag = 3u32;
    let m = Mini { a: kani::any(), b: kani::any() };
    let mut arr = [0u8; 48];
    let n;
    let el;
    {
        let mut w: &mut [u8] = &mut arr[..];
        match MODE {
            M_MESSAGE => {
                enc::message::encode(tag, &m, &mut w);
                el = enc::message::encoded_len(tag, &m);
            }
            M_GROUP => {
                enc::group::encode(tag, &m, &mut w);
                el = enc::group::encoded_len(tag, &m);
            }
            M_TOP => {
                let r = m.encode(&mut w);
                core::mem::forget(r);
                el = m.encoded_len();
            }
            _ => {
                let r = m.encode_length_delimited(&mut w);
                core::mem::forget(r);
                el = m.encoded_len() + pilota::prost::length_delimiter_len(m.encoded_len());
            }
        }
        n = 48 - w.len();
    }
    chk!(WHICH == C05, n == el, "C05: encoded_len equals bytes written");
    // reference encoding: proto3 scalars at their default are omitted
    let mut body = rp::Out::<48>::new();
    if m.a != 0 {
        rp::key(&mut body, 1, rp::WT_VARINT);
        rp::varint(&mut body, rp::int32_u64(m.a));
    }
    if m.b != 0 {
        rp::key(&mut body, 2, rp::WT_I64);
        rp::fixed64(&mut body, m.b);
    }
    let mut o = rp::Out::<48>::new();
    match MODE {
        M_MESSAGE => {
            rp::key(&mut o, tag, rp::WT_LEN);
            rp::varint(&mut o, body.n as u64);
            o.put_sym(&body.b[..body.n]);
        }
        M_GROUP => {
            rp::key(&mut o, tag, rp::WT_SGROUP);
            o.put_sym(&body.b[..body.n]);
            rp::key(&mut o, tag, rp::WT_EGROUP);
        }
        M_TOP => o.put_sym(&body.b[..body.n]),
        _ => {
            rp::varint(&mut o, body.n as u64);
            o.put_sym(&body.b[..body.n]);
        }
    }
    chk!(true, o.eq_arr(&arr, n), "C05/C06: message bytes equal the reference encoding");
    kani::cover!(m.a < 0 && m.b != 0, "ten-byte varint and fixed64 present");
    kani::cover!(m.a == 0 && m.b == 0, "empty body");
    kani::cover!(true, "reached end");
}

/// (r) for `Mini`: body = [key1 varint(LA bytes)] [key2 fixed64], either field optional,
/// order symbolic (C06: fields in any order)
#[cfg(kani)]
pub fn pb_message_r<const MODE: u8, const LA: usize, const VARIANT: u8>() {
    let tag = 3u32;
    let (va, a_u64) = sym_varint::<LA>();
    let fb: [u8; 8] = kani::any();
    // VARIANT (concrete per instance, so that the layout is concrete): 0 = a,b  1 = b,a  2 = a only  3 = b only
    let has_a = VARIANT != 3;
    let has_b = VARIANT != 2;
    let a_first = VARIANT != 1;
    let mut body = rp::Out::<24>::new();
    let mut pass = 0;
    while pass < 2 {
        let do_a = (pass == 0) == a_first;
        if do_a && has_a {
            body.put(0x08);
            body.put_all(&va);
        }
        if !do_a && has_b {
            body.put(0x11);
            body.put_all(&fb);
        }
        pass += 1;
    }
    let mut o = rp::Out::<32>::new();
    match MODE {
        M_MESSAGE => {
            rp::key(&mut o, tag, rp::WT_LEN);
            o.put(body.n as u8);
            o.put_sym(&body.b[..body.n]);
        }
        M_GROUP => {
            rp::key(&mut o, tag, rp::WT_SGROUP);
            o.put_sym(&body.b[..body.n]);
            rp::key(&mut o, tag, rp::WT_EGROUP);
        }
        M_TOP => o.put_sym(&body.b[..body.n]),
        _ => {
            o.put(body.n as u8);
            o.put_sym(&body.b[..body.n]);
        }
    }
    let expect = Mini { a: if has_a { a_u64 as i32 } else { 0 }, b: if has_b { u64::from_le_bytes(fb) } else { 0 } };
    let total = o.n;
    let mut r: &[u8] = &o.b[..total];
    let mut out = Mini::default();
    match MODE {
        M_MESSAGE => {
            let (t2, w2) = okd(enc::decode_key(&mut r));
            okd(enc::message::merge(w2, &mut out, &mut r, DecodeContext::default()));
        }
        M_GROUP => {
            let (t2, w2) = okd(enc::decode_key(&mut r));
            okd(enc::group::merge(t2, w2, &mut out, &mut r, DecodeContext::default()));
        }
        M_TOP => out = okd(Mini::decode(&mut r)),
        _ => out = okd(Mini::decode_length_delimited(&mut r)),
    }
    kani::assert(out == expect, "C05/C06: message decodes to the value the reference encoding denotes");
    kani::assert(r.is_empty(), "C05: decoder consumed exactly the encoded bytes");
    kani::cover!(true, "reached end");
}

/// (w) repeated int32, two elements
#[cfg(kani)]
pub fn pb_rep_int32_w<const WHICH: u8, const PACKED: bool>() {
    let tag = 7u32;
    let vals: [i32; 2] = kani::any();
    let mut arr = [0u8; 32];
    let n;
    let el;
    {
        let mut w: &mut [u8] = &mut arr[..];
        if PACKED {
            enc::int32::encode_packed(tag, &vals[..], &mut w);
            el = enc::int32::encoded_len_packed(tag, &vals[..]);
        } else {
            enc::int32::encode_repeated(tag, &vals[..], &mut w);
            el = enc::int32::encoded_len_repeated(tag, &vals[..]);
        }
        n = 32 - w.len();
    }
    chk!(WHICH == C05, n == el, "C05: encoded_len equals bytes written");
    let mut o = rp::Out::<32>::new();
    if PACKED {
        rp::key(&mut o, tag, rp::WT_LEN);
        rp::varint(&mut o, (rp::varint_len(rp::int32_u64(vals[0])) + rp::varint_len(rp::int32_u64(vals[1]))) as u64);
        rp::varint(&mut o, rp::int32_u64(vals[0]));
        rp::varint(&mut o, rp::int32_u64(vals[1]));
    } else {
        rp::key(&mut o, tag, rp::WT_VARINT);
        rp::varint(&mut o, rp::int32_u64(vals[0]));
        rp::key(&mut o, tag, rp::WT_VARINT);
        rp::varint(&mut o, rp::int32_u64(vals[1]));
    }
    chk!(true, o.eq_arr(&arr, n), "C05/C06: repeated field bytes equal the reference encoding");
    kani::cover!(vals[0] < 0 && vals[1] > 127, "ten-byte and two-byte elements");
    kani::cover!(true, "reached end");
}

/// (r) repeated int32 from reference bytes, element varint lengths L0, L1
#[cfg(kani)]
pub fn pb_rep_int32_r<const PACKED: bool, const L0: usize, const L1: usize>() {
    let tag = 7u32;
    let (v0, u0) = sym_varint::<L0>();
    let (v1, u1) = sym_varint::<L1>();
    let mut o = rp::Out::<32>::new();
    if PACKED {
        rp::key(&mut o, tag, rp::WT_LEN);
        o.put((L0 + L1) as u8);
        o.put_all(&v0);
        o.put_all(&v1);
    } else {
        rp::key(&mut o, tag, rp::WT_VARINT);
        o.put_all(&v0);
        rp::key(&mut o, tag, rp::WT_VARINT);
        o.put_all(&v1);
    }
    let mut out: Vec<i32> = Vec::with_capacity(4);
    let mut r: &[u8] = &o.b[..o.n];
    let mut rounds = 0;
    while !r.is_empty() && rounds < 2 {
        let (t2, w2) = okd(enc::decode_key(&mut r));
        kani::assert(t2 == tag, "C05: key decodes to tag");
        okd(enc::int32::merge_repeated(w2, &mut out, &mut r, DecodeContext::default()));
        rounds += 1;
    }
    kani::assert(r.is_empty(), "C05: decoder consumed exactly the encoded bytes");
    kani::assert(out.len() == 2 && out[0] == u0 as i32 && out[1] == u1 as i32, "C05/C06: repeated values decode in order, packed or unpacked");
    kani::cover!(true, "reached end");
    core::mem::forget(out);
}

/// (w) ordered map<int32, fixed64>, one entry
#[cfg(kani)]
pub fn pb_btree_map_w<const WHICH: u8>() {
    use std::collections::BTreeMap;
    let tag = 4u32;
    let k: i32 = kani::any();
    let v: u64 = kani::any();
    let mut m: BTreeMap<i32, u64> = BTreeMap::new();
    m.insert(k, v);
    let mut arr = [0u8; 48];
    let n;
    let el;
    {
        let mut w: &mut [u8] = &mut arr[..];
        enc::btree_map::encode(enc::int32::encode::<&mut [u8], i32>, enc::int32::encoded_len::<i32>, enc::fixed64::encode, enc::fixed64::encoded_len, tag, &m, &mut w);
        el = enc::btree_map::encoded_len(enc::int32::encoded_len::<i32>, enc::fixed64::encoded_len, tag, &m);
        n = 48 - w.len();
    }
    chk!(WHICH == C05, n == el, "C05: encoded_len equals bytes written");
    // reference: entry message {1: key, 2: value}; defaults may be omitted or present
    let enc_default = cfg!(feature = "feat_on");
    let mut body = rp::Out::<24>::new();
    if k != 0 || enc_default {
        rp::key(&mut body, 1, rp::WT_VARINT);
        rp::varint(&mut body, rp::int32_u64(k));
    }
    if v != 0 || enc_default {
        rp::key(&mut body, 2, rp::WT_I64);
        rp::fixed64(&mut body, v);
    }
    let mut o = rp::Out::<48>::new();
    rp::key(&mut o, tag, rp::WT_LEN);
    rp::varint(&mut o, body.n as u64);
    o.put_sym(&body.b[..body.n]);
    chk!(true, o.eq_arr(&arr, n), "C05/C06: map entry equals the reference key=1/value=2 entry message");
    kani::cover!(k == 0 && v == 0, "default key and value");
    kani::cover!(true, "reached end");
    core::mem::forget(m);
}

/// (r) ordered map from reference bytes; key varint length LK; entry fields in either order,
/// either one omitted (defaults)
#[cfg(kani)]
pub fn pb_btree_map_r<const LK: usize, const VARIANT: u8>() {
    use std::collections::BTreeMap;
    let tag = 4u32;
    let (vk, uk) = sym_varint::<LK>();
    let fv: [u8; 8] = kani::any();
    // VARIANT: 0 = key,value  1 = value,key  2 = key only  3 = value only  (entry defaults omitted)
    let has_k = VARIANT != 3;
    let has_v = VARIANT != 2;
    let k_first = VARIANT != 1;
    let mut body = rp::Out::<24>::new();
    let mut pass = 0;
    while pass < 2 {
        let do_k = (pass == 0) == k_first;
        if do_k && has_k {
            body.put(0x08);
            body.put_all(&vk);
        }
        if !do_k && has_v {
            body.put(0x11);
            body.put_all(&fv);
        }
        pass += 1;
    }
    let mut o = rp::Out::<32>::new();
    rp::key(&mut o, tag, rp::WT_LEN);
    o.put(body.n as u8);
    o.put_sym(&body.b[..body.n]);
    let ek = if has_k { uk as i32 } else { 0 };
    let ev = if has_v { u64::from_le_bytes(fv) } else { 0 };
    let mut r: &[u8] = &o.b[..o.n];
    let (t2, w2) = okd(enc::decode_key(&mut r));
    let mut out: BTreeMap<i32, u64> = BTreeMap::new();
    okd(enc::btree_map::merge(enc::int32::merge::<&[u8], i32>, enc::fixed64::merge, &mut out, &mut r, DecodeContext::default()));
    kani::assert(r.is_empty(), "C05: decoder consumed exactly the encoded bytes");
    kani::assert(out.len() == 1 && out.get(&ek) == Some(&ev), "C05/C06: map entry decodes to the entry the reference encoding denotes");
    kani::cover!(true, "reached end");
    core::mem::forget(out);
}

/// (r) repeated int32, ONE element, packed or unpacked, from reference bytes; the element is a
/// symbolic varint of L bytes and nothing follows it (cheap form of pb_rep_int32_r)
#[cfg(kani)]
pub fn pb_rep_int32_r1<const PACKED: bool, const L: usize>() {
    let tag = 7u32;
    let (v0, u0) = sym_varint::<L>();
    let mut o = rp::Out::<16>::new();
    if PACKED {
        rp::key(&mut o, tag, rp::WT_LEN);
        o.put(L as u8);
    } else {
        rp::key(&mut o, tag, rp::WT_VARINT);
    }
    o.put_all(&v0);
    let mut out: Vec<i32> = Vec::with_capacity(2);
    let mut r: &[u8] = &o.b[..o.n];
    let (t2, w2) = okd(enc::decode_key(&mut r));
    okd(enc::int32::merge_repeated(w2, &mut out, &mut r, DecodeContext::default()));
    kani::assert(r.is_empty(), "C05: decoder consumed exactly the encoded bytes");
    kani::assert(out.len() == 1 && out[0] == u0 as i32, "C05/C06: a repeated int32 element decodes from the packed and from the unpacked form");
    kani::cover!(true, "reached end");
    core::mem::forget(out);
}

/// (w) ordered map<int32, string> with ONE entry whose value is 130 bytes long: the entry's own
/// length prefix needs two bytes (encoded_len must follow the body length, not the entry count)
#[cfg(kani)]
pub fn pb_btree_map_w_long<const WHICH: u8>() {
    use std::collections::BTreeMap;
    let tag = 4u32;
    let k: i32 = kani::any();
    kani::assume(k > 0 && k < 128);
    let mut content = [b'a'; 130];
    let h: [u8; 2] = kani::any();
    kani::assume(h[0] < 0x80 && h[1] < 0x80);
    content[0] = h[0];
    content[129] = h[1];
    let leaked: &'static [u8; 130] = Box::leak(Box::new(content));
    let v = String::from(unsafe { core::str::from_utf8_unchecked(&leaked[..]) });
    let mut m: BTreeMap<i32, String> = BTreeMap::new();
    m.insert(k, v);
    let mut arr = [0u8; 160];
    let n;
    let el;
    {
        let mut w: &mut [u8] = &mut arr[..];
        enc::btree_map::encode(enc::int32::encode::<&mut [u8], i32>, enc::int32::encoded_len::<i32>, enc::string::encode::<&mut [u8], String>, enc::string::encoded_len::<String>, tag, &m, &mut w);
        el = enc::btree_map::encoded_len(enc::int32::encoded_len::<i32>, enc::string::encoded_len::<String>, tag, &m);
        n = 160 - w.len();
    }
    chk!(WHICH == C05, n == el, "C05: encoded_len equals bytes written (map entry longer than 127 bytes)");
    // key(1) + len(2: 2 + 3 + 130 = 135 -> 0x87 0x01) + [08 k] + [12 82 01 <130 bytes>]
    let good = n == 1 + 2 + 2 + 3 + 130 && arr[0] == 0x22 && arr[1] == 0x87 && arr[2] == 0x01 && arr[3] == 0x08 && arr[4] == k as u8
        && arr[5] == 0x12 && arr[6] == 0x82 && arr[7] == 0x01 && arr[8] == h[0] && arr[137] == h[1];
    chk!(WHICH == C06, good, "C06: long map entry equals the reference encoding");
    kani::cover!(true, "reached end");
    core::mem::forget(m);
}

/// hash map<int32, fixed64> with one entry (AHashMap; the random hasher state is stubbed to
/// fixed seeds because RandomState::new reaches the getrandom syscall)
#[cfg(kani)]
pub fn pb_hash_map_roundtrip<const WHICH: u8>() {
    let tag = 4u32;
    let k: i32 = kani::any();
    let v: u64 = kani::any();
    let mut m: pilota::AHashMap<i32, u64> = pilota::AHashMap::default();
    m.insert(k, v);
    let mut arr = [0u8; 48];
    let n;
    let el;
    {
        let mut w: &mut [u8] = &mut arr[..];
        enc::hash_map::encode(enc::int32::encode::<&mut [u8], i32>, enc::int32::encoded_len::<i32>, enc::fixed64::encode, enc::fixed64::encoded_len, tag, &m, &mut w);
        el = enc::hash_map::encoded_len(enc::int32::encoded_len::<i32>, enc::fixed64::encoded_len, tag, &m);
        n = 48 - w.len();
    }
    chk!(WHICH == C05, n == el, "C05: encoded_len equals bytes written (hash map)");
    kani::cover!(true, "reached end");
    core::mem::forget(m);
}
pub fn rs_stub() -> ahash::RandomState {
    ahash::RandomState::with_seeds(1, 2, 3, 4)
}

/// C18: a later map entry with an EQUAL key replaces the earlier one. The map already holds
/// {5: v1} (inserted by the harness); one reference-encoded entry {5: v2} is merged.
#[cfg(kani)]
pub fn pb_btree_map_dup_key<const WITH_OTHER: bool>() {
    use std::collections::BTreeMap;
    let v1: u64 = kani::any();
    let v2: [u8; 8] = kani::any();
    let mut out: BTreeMap<i32, u64> = BTreeMap::new();
    out.insert(5, v1);
    let arr = [11u8, 0x08, 5, 0x11, v2[0], v2[1], v2[2], v2[3], v2[4], v2[5], v2[6], v2[7]];
    let mut r: &[u8] = &arr[..];
    okd(enc::btree_map::merge(enc::int32::merge::<&[u8], i32>, enc::fixed64::merge, &mut out, &mut r, DecodeContext::default()));
    kani::assert(r.is_empty(), "C18: the entry is consumed");
    kani::assert(out.len() == 1 && out.get(&5) == Some(&u64::from_le_bytes(v2)), "C18: a later map entry with an equal key replaces the earlier one");
    kani::cover!(true, "reached end");
    core::mem::forget(out);
}
