//! C08: generated decoders are tolerant readers across schema evolution.
//! Reader schema: corpus/t_evolve_r.thrift (emitted by the current generator). Input bytes are
//! produced by the REFERENCE encoder (harness/src/ref_thrift.rs) under the writer schema
//! corpus/t_evolve_w.thrift; every instance has a concrete record layout and symbolic payloads.
#![allow(unused)]
use crate::common::*;
use crate::gen_thrift::er;
use crate::protos::*;
use crate::ref_thrift as rt;

pub const X_NONE: u8 = 0; // only the known required field
pub const X_ADDED_I64: u8 = 1; // 3: i64 added_i64 (unknown to the reader)
pub const X_ADDED_STR: u8 = 2; // 4: string added_str
pub const X_ADDED_STRUCT: u8 = 3; // 5: Extra{1: i8}
pub const X_ADDED_LIST: u8 = 4; // 6: list<i32> with 2 elements
pub const X_RETYPED: u8 = 5; // 7: i32 on the wire, string locally
pub const X_ENUM_UNKNOWN_NUMBER: u8 = 6; // 8: Kind = 9, not declared locally
pub const X_NAME_PRESENT: u8 = 7; // 2: optional string name present

fn put_extra<const N: usize>(o: &mut rt::Out<N>, x: u8, p: &[u8; 8], le: bool) {
    match x {
        X_ADDED_I64 => {
            rt::bin_field(o, rt::bt::I64, 3, le);
            o.put_all(p);
        }
        X_ADDED_STR => {
            rt::bin_field(o, rt::bt::BINARY, 4, le);
            rt::bin_binary(o, &p[..2], le);
        }
        X_ADDED_STRUCT => {
            rt::bin_field(o, rt::bt::STRUCT, 5, le);
            rt::bin_field(o, rt::bt::I8, 1, le);
            o.put(p[0]);
            o.put(0);
        }
        X_ADDED_LIST => {
            rt::bin_field(o, rt::bt::LIST, 6, le);
            rt::bin_list(o, rt::bt::I32, 2, le);
            o.put_all(p);
        }
        X_RETYPED => {
            rt::bin_field(o, rt::bt::I32, 7, le);
            o.put_all(&p[..4]);
        }
        X_ENUM_UNKNOWN_NUMBER => {
            rt::bin_field(o, rt::bt::I32, 8, le);
            rt::bin_i32(o, 9, le);
        }
        X_NAME_PRESENT => {
            rt::bin_field(o, rt::bt::BINARY, 2, le);
            rt::bin_binary(o, &p[..2], le);
        }
        _ => {}
    }
}

/// Rec with the required field and one extra record, before (POS 0) or after (POS 1) it.
#[cfg(kani)]
pub fn rec_with_extra<P: Proto, const X: u8, const POS: u8>() {
    let le = P::WIRE == Wire::BinaryLe;
    let id: i32 = kani::any();
    let p: [u8; 8] = kani::any();
    if X == X_NAME_PRESENT {
        kani::assume(p[0] < 0x80 && p[1] < 0x80);
    }
    let mut o = rt::Out::<48>::new();
    if POS == 0 {
        put_extra(&mut o, X, &p, le);
    }
    rt::bin_field(&mut o, rt::bt::I32, 1, le);
    rt::bin_i32(&mut o, id, le);
    if POS == 1 {
        put_extra(&mut o, X, &p, le);
    }
    o.put(0);
    let n = o.n;
    let mut b = static_input(o.b);
    b.truncate(n);
    let mut r = P::reader(&mut b);
    let got: er::Rec = ok(Message::decode(&mut r));
    kani::assert(got.id == id, "C08: known fields decode identically no matter which unknown fields surround them");
    kani::assert(got.missing_opt.is_none(), "C08: a missing optional field stays empty");
    kani::assert(got.missing_default == Some(5), "C08: a missing field with an IDL default holds the default");
    if X == X_NAME_PRESENT {
        kani::assert(got.name.as_deref().map(|s| s.as_bytes()) == Some(&p[..2]), "C08: known optional field decodes");
    } else {
        kani::assert(got.name.is_none(), "C08: an absent optional field stays empty");
    }
    kani::assert(got.retyped.is_none(), "C08: a field whose wire type differs from the declared type is ignored");
    if X == X_ENUM_UNKNOWN_NUMBER {
        kani::assert(got.kind.map(|k| k.inner()) == Some(9), "C08: an enum number not declared locally is kept intact");
    } else {
        kani::assert(got.kind.is_none(), "C08: absent enum field stays empty");
    }
    kani::assert(P::remaining(&mut r) == 0, "C08: the whole struct is consumed");
    kani::cover!(true, "reached end");
    core::mem::forget(got);
    core::mem::forget(r);
    core::mem::forget(b);
}

/// A required field absent (only unknown / optional fields present) is an error.
#[cfg(kani)]
pub fn rec_required_absent<P: Proto, const X: u8>() {
    let le = P::WIRE == Wire::BinaryLe;
    let p: [u8; 8] = kani::any();
    let mut o = rt::Out::<48>::new();
    put_extra(&mut o, X, &p, le);
    o.put(0);
    let n = o.n;
    let mut b = static_input(o.b);
    b.truncate(n);
    let mut r = P::reader(&mut b);
    let got: Result<er::Rec, _> = Message::decode(&mut r);
    kani::assert(got.is_err(), "C08: an absent required field is an error, never a made-up value");
    kani::cover!(true, "reached end");
    core::mem::forget(got);
    core::mem::forget(r);
    core::mem::forget(b);
}

pub const U_KNOWN_A: u8 = 0; // {1: i32}
pub const U_UNKNOWN_THEN_KNOWN: u8 = 1; // {3: i64 c_new, 1: i32}  -> two fields sent: writer bug, but 3 is unknown locally
pub const U_ONLY_UNKNOWN: u8 = 2; // {3: i64}
pub const U_EMPTY: u8 = 3; // {}
pub const U_TWO_KNOWN: u8 = 4; // {1: i32, 2: string}
pub const U_RETYPED_VARIANT: u8 = 5; // {1: string "ab"}  same id, different wire type

#[cfg(kani)]
pub fn union_cases<P: Proto, const CASE: u8>() {
    let le = P::WIRE == Wire::BinaryLe;
    let a: i32 = kani::any();
    let p: [u8; 8] = kani::any();
    let mut o = rt::Out::<48>::new();
    match CASE {
        U_KNOWN_A => {
            rt::bin_field(&mut o, rt::bt::I32, 1, le);
            rt::bin_i32(&mut o, a, le);
        }
        U_UNKNOWN_THEN_KNOWN => {
            rt::bin_field(&mut o, rt::bt::I64, 3, le);
            o.put_all(&p);
            rt::bin_field(&mut o, rt::bt::I32, 1, le);
            rt::bin_i32(&mut o, a, le);
        }
        U_ONLY_UNKNOWN => {
            rt::bin_field(&mut o, rt::bt::I64, 3, le);
            o.put_all(&p);
        }
        U_EMPTY => {}
        U_TWO_KNOWN => {
            rt::bin_field(&mut o, rt::bt::I32, 1, le);
            rt::bin_i32(&mut o, a, le);
            rt::bin_field(&mut o, rt::bt::BINARY, 2, le);
            rt::bin_binary(&mut o, b"ab", le);
        }
        _ => {
            // id 1 carries a one-byte string whose content is 0x00: a decoder that ignores the
            // wire type reads the length prefix as the i32 variant and then takes the payload
            // byte for the struct's stop
            rt::bin_field(&mut o, rt::bt::BINARY, 1, le);
            rt::bin_binary(&mut o, &[0u8], le);
        }
    }
    o.put(0);
    let n = o.n;
    let mut b = static_input(o.b);
    b.truncate(n);
    let mut r = P::reader(&mut b);
    let got: Result<er::Choice, _> = Message::decode(&mut r);
    match CASE {
        U_KNOWN_A | U_UNKNOWN_THEN_KNOWN => match &got {
            Ok(er::Choice::A(v)) => kani::assert(*v == a, "C08: the known union variant decodes, unknown variants around it are ignored"),
            _ => kani::assert(false, "C08: the known union variant decodes, unknown variants around it are ignored"),
        },
        U_ONLY_UNKNOWN | U_EMPTY => kani::assert(got.is_err(), "C08: a union carrying no known variant is an error"),
        U_TWO_KNOWN => kani::assert(got.is_err(), "C08: a union carrying more than one known variant is an error"),
        _ => kani::assert(got.is_err(), "C08: a union variant whose wire type differs from the declared type is ignored (no known variant left: error), never decoded as a wrong value"),
    }
    kani::cover!(true, "reached end");
    core::mem::forget(got);
    core::mem::forget(r);
    core::mem::forget(b);
}
