//! C09 harness instances (a): primitive/header readers on arbitrary bytes.
#![allow(unused)]
use crate::protos::*;
use crate::total::{self, *};
use paste::paste;

macro_rules! ra {
    ($tier:ident, $api:ident, $p:ty, $pn:ident, $n:expr, $unw:expr) => { paste! {
        crate::proof!{ #[kani::unwind($unw)] fn [<c09_ $tier _read_ $api:lower _ $pn>]() { total::read_arbitrary::<$p, {total::$api}, $n>() } }
    }};
}
macro_rules! ra_all {
    ($tb:ident, $tc:ident, $api:ident, $n:expr, $unw_bin:expr, $unw_cmp:expr) => {
        ra!($tb, $api, PBin, bin, $n, $unw_bin);
        ra!(t, $api, PLe, le, $n, $unw_bin);
        ra!($tc, $api, PCompact, compact, $n, $unw_cmp);
    };
}
ra_all!(t, t, R_BOOL, 3, 4, 4);
ra_all!(t, t, R_I8, 3, 4, 4);
ra_all!(t, t, R_BYTE, 3, 4, 4);
ra_all!(q, q, R_I16, 4, 5, 5);
ra_all!(q, q, R_I32, 6, 7, 7);
ra_all!(t, q, R_I64, 11, 12, 12);
ra_all!(t, t, R_DOUBLE, 9, 10, 10);
ra_all!(t, t, R_UUID, 17, 18, 18);
ra_all!(q, q, R_STRING, 8, 9, 9);
ra_all!(q, q, R_FASTSTR, 8, 9, 9);
ra_all!(q, q, R_BYTES, 8, 9, 9);
ra_all!(q, t, R_BYTES_VEC, 8, 9, 9);
ra_all!(t, q, R_FIELD, 5, 6, 6);
ra_all!(t, q, R_LIST, 7, 8, 8);
ra_all!(t, t, R_SET, 7, 8, 8);
ra_all!(t, q, R_MAP, 8, 9, 9);
ra_all!(t, t, R_MESSAGE, 12, 13, 13);
ra_all!(t, t, R_STRUCT_BEGIN_END, 2, 4, 4);

// default skipper on fixed-width types, symbolic length (every truncation point of the value)
macro_rules! sf {
    ($tier:ident, $p:ty, $pn:ident, $ty:expr, $tyn:ident, $w:expr, $n:expr) => { paste! {
        crate::proof!{ #[kani::unwind(2)] fn [<c09_ $tier _skipfixed_ $tyn _ $pn>]() { total::skip_fixed_prefix::<$p, $ty, $w, $n>() } }
    }};
}
sf!(q, PBin, bin, 16, uuid, 16, 17);
sf!(q, PBin, bin, 10, i64, 8, 9);
sf!(q, PBin, bin, 4, double, 8, 9);
sf!(t, PBin, bin, 8, i32, 4, 5);
sf!(t, PBin, bin, 6, i16, 2, 3);
sf!(t, PLe, le, 16, uuid, 16, 17);
sf!(t, PLe, le, 10, i64, 8, 9);
