//! Layer L1: headers and protocol state. Field begin/stop with symbolic ids and a symbolic
//! previous id (compact delta context), bool-in-header folding, list/set/map headers with
//! symbolic sizes, message envelope. One writer-call group, one reader-call group.
//!   C01 round trip / C03 reference decoder recovers what was written / C04 length pass
#![allow(unused)]
use crate::chk;
use crate::common::*;
use crate::l0::{C01, C03, C04};
use crate::protos::*;
use crate::ref_thrift as rt;

/// Concrete wire type from its binary code. A *symbolic* TType is avoided on purpose: the
/// binary readers map the type byte through a static lookup table and CBMC pays 400-600 s per
/// harness for the symbolic array index (measured); the tables themselves are verified for
/// all 256 bytes in `l1_type_tables`.
pub const fn ttype_of(code: u8) -> TType {
    match code {
        2 => TType::Bool,
        3 => TType::I8,
        4 => TType::Double,
        6 => TType::I16,
        8 => TType::I32,
        10 => TType::I64,
        11 => TType::Binary,
        12 => TType::Struct,
        13 => TType::Map,
        14 => TType::Set,
        15 => TType::List,
        16 => TType::Uuid,
        _ => TType::Stop,
    }
}

/// Symbolic wire type among the data types of the spec (no Stop, no Void). Only for tiny harnesses.
#[cfg(kani)]
pub fn any_data_ttype(allow_bool: bool) -> TType {
    let k: u8 = kani::any();
    kani::assume(k < 12);
    let t = match k {
        0 => TType::Bool,
        1 => TType::I8,
        2 => TType::Double,
        3 => TType::I16,
        4 => TType::I32,
        5 => TType::I64,
        6 => TType::Binary,
        7 => TType::Struct,
        8 => TType::Map,
        9 => TType::Set,
        10 => TType::List,
        _ => TType::Uuid,
    };
    kani::assume(allow_bool || k != 0);
    t
}

/// Reference decoder of one field header. Returns (binary type code, id, consumed, bool value if folded).
pub fn ref_read_field(s: &[u8], wire: Wire, last_id: i16) -> Option<(u8, i32, usize, Option<bool>)> {
    match wire {
        Wire::Binary | Wire::BinaryLe => {
            if s.len() < 3 {
                return None;
            }
            let id = if wire == Wire::Binary {
                i16::from_be_bytes([s[1], s[2]])
            } else {
                i16::from_le_bytes([s[1], s[2]])
            };
            Some((s[0], id as i32, 3, None))
        }
        Wire::Compact => {
            if s.len() < 1 {
                return None;
            }
            let delta = s[0] >> 4;
            let cty = s[0] & 0x0f;
            let (bty, bv) = match cty {
                rt::ct::BOOL_TRUE => (rt::bt::BOOL, Some(true)),
                rt::ct::BOOL_FALSE => (rt::bt::BOOL, Some(false)),
                rt::ct::I8 => (rt::bt::I8, None),
                rt::ct::I16 => (rt::bt::I16, None),
                rt::ct::I32 => (rt::bt::I32, None),
                rt::ct::I64 => (rt::bt::I64, None),
                rt::ct::DOUBLE => (rt::bt::DOUBLE, None),
                rt::ct::BINARY => (rt::bt::BINARY, None),
                rt::ct::LIST => (rt::bt::LIST, None),
                rt::ct::SET => (rt::bt::SET, None),
                rt::ct::MAP => (rt::bt::MAP, None),
                rt::ct::STRUCT => (rt::bt::STRUCT, None),
                rt::ct::UUID => (rt::bt::UUID, None),
                _ => return None,
            };
            if delta != 0 {
                Some((bty, last_id as i32 + delta as i32, 1, bv))
            } else {
                let (u, n) = rt::varint_decode(&s[1..], 3)?;
                let id = rt::unzigzag64(u);
                if id < i16::MIN as i64 || id > i16::MAX as i64 {
                    return None;
                }
                Some((bty, id as i32, 1 + n, bv))
            }
        }
    }
}

/// struct { prev: i8 = x ; id: <ty> (header only) ; stop }, prev and id symbolic.
/// `PREV_FIELD == false` writes the second field as the first one (last id = 0 context).
#[cfg(kani)]
pub fn l1_field<P: Proto, const WHICH: u8, const PREV_FIELD: bool, const TY: u8>() {
    let prev: i16 = kani::any();
    let id: i16 = kani::any();
    let x: i8 = kani::any();
    let ty = ttype_of(TY);
    // the i16 subtraction `id - last_id` is the subject of a separate harness (l1_field_far)
    let last: i16 = if PREV_FIELD { prev } else { 0 };
    let d = id as i32 - last as i32;
    kani::assume(d >= i16::MIN as i32 && d <= i16::MAX as i32);
    if PREV_FIELD {
        let d0 = prev as i32;
        kani::assume(d0 >= i16::MIN as i32 && d0 <= i16::MAX as i32);
    }
    let mut out = BytesMut::with_capacity(32);
    let mut n = 0usize;
    {
        let mut tw_buf = BytesMut::with_capacity(32);
        let mut t = P::writer(&mut tw_buf); // twin: length pass only
        n += t.struct_begin_len(&SID);
        if PREV_FIELD {
            n += t.field_begin_len(TType::I8, Some(prev));
            n += t.i8_len(x);
            n += t.field_end_len();
        }
        n += t.field_begin_len(ty, Some(id));
        n += t.field_end_len();
        n += t.field_stop_len();
        n += t.struct_end_len();
        core::mem::forget(t);
        core::mem::forget(tw_buf);
    }
    {
        let mut w = P::writer(&mut out);
        ok(w.write_struct_begin(&SID));
        if PREV_FIELD {
            ok(w.write_field_begin(TType::I8, prev));
            ok(w.write_i8(x));
            ok(w.write_field_end());
        }
        ok(w.write_field_begin(ty, id));
        ok(w.write_field_end());
        ok(w.write_field_stop());
        ok(w.write_struct_end());
        P::finish(w);
    }
    chk!(WHICH == C04, out.len() == n, "C04: reported length equals bytes written");
    if WHICH == C03 {
        // independent decoder recovers exactly what was written
        let s = &out[..];
        let mut pos = 0usize;
        let mut last_id = 0i16;
        let mut good = true;
        if PREV_FIELD {
            match ref_read_field(s, P::WIRE, 0) {
                Some((t0, i0, c0, _)) => {
                    good &= t0 == rt::bt::I8 && i0 == prev as i32;
                    pos = c0;
                    good &= pos < s.len() && s[pos] == x as u8;
                    pos += 1;
                    last_id = prev;
                }
                None => good = false,
            }
        }
        if good {
            match ref_read_field(&s[pos..], P::WIRE, last_id) {
                Some((t1, i1, c1, _)) => {
                    good &= t1 == ty as u8 && i1 == id as i32;
                    pos += c1;
                    good &= pos + 1 == s.len() && s[pos] == 0;
                }
                None => good = false,
            }
        }
        chk!(true, good, "C03: reference decoder recovers the field headers written");
    }
    let delta = id as i32 - last as i32;
    kani::cover!(delta == 14, "delta 14");
    kani::cover!(delta == 15, "delta 15");
    kani::cover!(delta == 16, "delta 16");
    kani::cover!(delta <= 0, "non-positive delta");
    let tail: [u8; 2] = kani::any();
    out.put_slice(&tail);
    let mut b = out.freeze();
    let mut r = P::reader(&mut b);
    ok(r.read_struct_begin());
    if PREV_FIELD {
        let f = ok(r.read_field_begin());
        chk!(WHICH == C01, f.field_type == TType::I8 && f.id == Some(prev), "C01: first field header read back");
        let gx = ok(r.read_i8());
        chk!(WHICH == C01, gx == x, "C01: first field value read back");
        ok(r.read_field_end());
    }
    let f = ok(r.read_field_begin());
    chk!(WHICH == C01, f.field_type == ty, "C01: field type read back");
    chk!(WHICH == C01, f.id == Some(id), "C01: field id read back");
    ok(r.read_field_end());
    let f = ok(r.read_field_begin());
    chk!(WHICH == C01, f.field_type == TType::Stop, "C01: stop read back");
    ok(r.read_struct_end());
    chk!(WHICH == C01, P::remaining(&mut r) == 2, "C01: reader consumed exactly the bytes written");
    kani::cover!(true, "reached end");
    core::mem::forget(r);
    core::mem::forget(b);
}

/// struct { prev: i8 ; id: bool = v ; after: i8 ; stop } - the compact protocol folds the bool
/// into the header; the field after it must see the bool's id as the delta base.
#[cfg(kani)]
pub fn l1_bool_field<P: Proto, const WHICH: u8>() {
    let prev: i16 = kani::any();
    let id: i16 = kani::any();
    let after: i16 = kani::any();
    let v: bool = kani::any();
    let x: i8 = kani::any();
    let y: i8 = kani::any();
    kani::assume(prev >= 0 && id >= prev && after >= id); // differences fit i16
    let mut out = BytesMut::with_capacity(32);
    let mut n = 0usize;
    {
        let mut tw_buf = BytesMut::with_capacity(32);
        let mut t = P::writer(&mut tw_buf);
        n += t.struct_begin_len(&SID);
        n += t.field_begin_len(TType::I8, Some(prev));
        n += t.i8_len(x);
        n += t.field_end_len();
        n += t.field_begin_len(TType::Bool, Some(id));
        n += t.bool_len(v);
        n += t.field_end_len();
        n += t.field_begin_len(TType::I8, Some(after));
        n += t.i8_len(y);
        n += t.field_end_len();
        n += t.field_stop_len();
        n += t.struct_end_len();
        core::mem::forget(t);
        core::mem::forget(tw_buf);
    }
    {
        let mut w = P::writer(&mut out);
        ok(w.write_struct_begin(&SID));
        ok(w.write_field_begin(TType::I8, prev));
        ok(w.write_i8(x));
        ok(w.write_field_end());
        ok(w.write_field_begin(TType::Bool, id));
        ok(w.write_bool(v));
        ok(w.write_field_end());
        ok(w.write_field_begin(TType::I8, after));
        ok(w.write_i8(y));
        ok(w.write_field_end());
        ok(w.write_field_stop());
        ok(w.write_struct_end());
        P::finish(w);
    }
    chk!(WHICH == C04, out.len() == n, "C04: reported length equals bytes written");
    if WHICH == C03 {
        let s = &out[..];
        let mut good = true;
        let mut pos = 0;
        match ref_read_field(s, P::WIRE, 0) {
            Some((t0, i0, c0, _)) => {
                good &= t0 == rt::bt::I8 && i0 == prev as i32;
                pos = c0 + 1;
            }
            None => good = false,
        }
        if good && pos <= s.len() {
            match ref_read_field(&s[pos..], P::WIRE, prev) {
                Some((t1, i1, c1, bv)) => {
                    good &= t1 == rt::bt::BOOL && i1 == id as i32;
                    pos += c1;
                    match P::WIRE {
                        Wire::Compact => good &= bv == Some(v),
                        _ => {
                            good &= pos < s.len() && s[pos] == v as u8;
                            pos += 1;
                        }
                    }
                }
                None => good = false,
            }
        }
        if good && pos <= s.len() {
            match ref_read_field(&s[pos..], P::WIRE, id) {
                Some((t2, i2, c2, _)) => {
                    good &= t2 == rt::bt::I8 && i2 == after as i32;
                    pos += c2;
                    good &= pos + 2 == s.len() && s[pos] == y as u8 && s[pos + 1] == 0;
                }
                None => good = false,
            }
        }
        chk!(true, good, "C03: reference decoder recovers bool field and neighbours");
    }
    let tail: [u8; 2] = kani::any();
    out.put_slice(&tail);
    let mut b = out.freeze();
    let mut r = P::reader(&mut b);
    ok(r.read_struct_begin());
    let f = ok(r.read_field_begin());
    chk!(WHICH == C01, f.field_type == TType::I8 && f.id == Some(prev), "C01: first field header read back");
    let gx = ok(r.read_i8());
    chk!(WHICH == C01, gx == x, "C01: first field value read back");
    ok(r.read_field_end());
    let f = ok(r.read_field_begin());
    chk!(WHICH == C01, f.field_type == TType::Bool && f.id == Some(id), "C01: bool field header read back");
    let gv = ok(r.read_bool());
    chk!(WHICH == C01, gv == v, "C01: bool field value read back");
    ok(r.read_field_end());
    let f = ok(r.read_field_begin());
    chk!(WHICH == C01, f.field_type == TType::I8 && f.id == Some(after), "C01: field after bool read back");
    let gy = ok(r.read_i8());
    chk!(WHICH == C01, gy == y, "C01: value after bool read back");
    ok(r.read_field_end());
    let f = ok(r.read_field_begin());
    chk!(WHICH == C01, f.field_type == TType::Stop, "C01: stop read back");
    ok(r.read_struct_end());
    chk!(WHICH == C01, P::remaining(&mut r) == 2, "C01: reader consumed exactly the bytes written");
    kani::cover!(id - prev == 15 && v, "bool at delta 15");
    kani::cover!(true, "reached end");
    core::mem::forget(r);
    core::mem::forget(b);
}

/// Field ids whose difference does not fit an i16 ("any field ids").
#[cfg(kani)]
pub fn l1_field_far<P: Proto, const WHICH: u8>() {
    let prev: i16 = kani::any();
    let id: i16 = kani::any();
    let d = id as i32 - prev as i32;
    kani::assume(d < i16::MIN as i32 || d > i16::MAX as i32);
    let mut out = BytesMut::with_capacity(32);
    {
        let mut w = P::writer(&mut out);
        ok(w.write_struct_begin(&SID));
        ok(w.write_field_begin(TType::I8, prev));
        ok(w.write_i8(1));
        ok(w.write_field_end());
        ok(w.write_field_begin(TType::I8, id));
        ok(w.write_i8(2));
        ok(w.write_field_end());
        ok(w.write_field_stop());
        ok(w.write_struct_end());
        P::finish(w);
    }
    let mut b = out.freeze();
    let mut r = P::reader(&mut b);
    ok(r.read_struct_begin());
    let f = ok(r.read_field_begin());
    chk!(WHICH == C01, f.id == Some(prev), "C01: first field id read back");
    ok(r.read_i8());
    ok(r.read_field_end());
    let f = ok(r.read_field_begin());
    chk!(WHICH == C01, f.id == Some(id), "C01: far field id read back");
    kani::cover!(true, "reached end");
    core::mem::forget(r);
    core::mem::forget(b);
}

pub const K_LIST: u8 = 0;
pub const K_SET: u8 = 1;

/// list / set header with symbolic element type and symbolic size 0..=i32::MAX
#[cfg(kani)]
pub fn l1_collection<P: Proto, const WHICH: u8, const KIND: u8, const TY: u8>() {
    let ety = ttype_of(TY);
    let size: usize = kani::any();
    kani::assume(size <= i32::MAX as usize);
    let mut out = BytesMut::with_capacity(16);
    let n;
    {
        let mut w = P::writer(&mut out);
        if KIND == K_LIST {
            n = w.list_begin_len(TListIdentifier { element_type: ety, size }) + w.list_end_len();
            ok(w.write_list_begin(TListIdentifier { element_type: ety, size }));
            ok(w.write_list_end());
        } else {
            n = w.set_begin_len(TSetIdentifier { element_type: ety, size }) + w.set_end_len();
            ok(w.write_set_begin(TSetIdentifier { element_type: ety, size }));
            ok(w.write_set_end());
        }
        P::finish(w);
    }
    chk!(WHICH == C04, out.len() == n, "C04: reported length equals bytes written");
    if WHICH == C03 {
        let s = &out[..];
        let good = match P::WIRE {
            Wire::Binary => s.len() == 5 && s[0] == ety as u8 && i32::from_be_bytes([s[1], s[2], s[3], s[4]]) == size as i32,
            Wire::BinaryLe => s.len() == 5 && s[0] == ety as u8 && i32::from_le_bytes([s[1], s[2], s[3], s[4]]) == size as i32,
            Wire::Compact => {
                // spec: short form is mandatory below 15
                let mut o = rt::Out::<16>::new();
                rt::cmp_list(&mut o, rt::compact_of_binary(ety as u8), size as u32);
                o.eq_slice(s)
            }
        };
        chk!(true, good, "C03: collection header equals the reference encoding");
    }
    kani::cover!(size == 14, "size 14");
    kani::cover!(size == 15, "size 15");
    kani::cover!(size == i32::MAX as usize, "size max");
    let tail: [u8; 2] = kani::any();
    out.put_slice(&tail);
    let mut b = out.freeze();
    let mut r = P::reader(&mut b);
    if KIND == K_LIST {
        let l = ok(r.read_list_begin());
        ok(r.read_list_end());
        chk!(WHICH == C01, l.element_type == ety && l.size == size, "C01: list header read back");
    } else {
        let l = ok(r.read_set_begin());
        ok(r.read_set_end());
        chk!(WHICH == C01, l.element_type == ety && l.size == size, "C01: set header read back");
    }
    chk!(WHICH == C01, P::remaining(&mut r) == 2, "C01: reader consumed exactly the bytes written");
    kani::cover!(true, "reached end");
    core::mem::forget(r);
    core::mem::forget(b);
}

/// map header, symbolic key/value types and size (0 included: compact one-byte empty map)
#[cfg(kani)]
pub fn l1_map<P: Proto, const WHICH: u8, const KTY: u8, const VTY: u8>() {
    let kty = ttype_of(KTY);
    let vty = ttype_of(VTY);
    let size: usize = kani::any();
    kani::assume(size <= i32::MAX as usize);
    let ident = TMapIdentifier { key_type: kty, value_type: vty, size };
    let mut out = BytesMut::with_capacity(16);
    let n;
    {
        let mut w = P::writer(&mut out);
        n = w.map_begin_len(ident) + w.map_end_len();
        ok(w.write_map_begin(ident));
        ok(w.write_map_end());
        P::finish(w);
    }
    chk!(WHICH == C04, out.len() == n, "C04: reported length equals bytes written");
    if WHICH == C03 {
        let s = &out[..];
        let good = match P::WIRE {
            Wire::Binary => s.len() == 6 && s[0] == kty as u8 && s[1] == vty as u8 && i32::from_be_bytes([s[2], s[3], s[4], s[5]]) == size as i32,
            Wire::BinaryLe => s.len() == 6 && s[0] == kty as u8 && s[1] == vty as u8 && i32::from_le_bytes([s[2], s[3], s[4], s[5]]) == size as i32,
            Wire::Compact => {
                let mut o = rt::Out::<16>::new();
                rt::cmp_map(&mut o, rt::compact_of_binary(kty as u8), rt::compact_of_binary(vty as u8), size as u32);
                o.eq_slice(s)
            }
        };
        chk!(true, good, "C03: map header equals the reference encoding");
    }
    kani::cover!(size == 0, "empty map");
    kani::cover!(size == i32::MAX as usize, "size max");
    let tail: [u8; 2] = kani::any();
    out.put_slice(&tail);
    let mut b = out.freeze();
    let mut r = P::reader(&mut b);
    let m = ok(r.read_map_begin());
    ok(r.read_map_end());
    chk!(WHICH == C01, m.size == size, "C01: map size read back");
    // an empty compact map carries no types on the wire
    chk!(WHICH == C01, size == 0 && P::WIRE == Wire::Compact || (m.key_type == kty && m.value_type == vty), "C01: map types read back");
    chk!(WHICH == C01, P::remaining(&mut r) == 2, "C01: reader consumed exactly the bytes written");
    kani::cover!(true, "reached end");
    core::mem::forget(r);
    core::mem::forget(b);
}

#[cfg(kani)]
pub fn any_msg_type() -> TMessageType {
    let k: u8 = kani::any();
    kani::assume(k < 4);
    match k {
        0 => TMessageType::Call,
        1 => TMessageType::Reply,
        2 => TMessageType::Exception,
        _ => TMessageType::OneWay,
    }
}

/// message envelope: symbolic type and sequence id, name of NLEN symbolic ASCII bytes
#[cfg(kani)]
pub fn l1_message<P: Proto, const WHICH: u8, const NLEN: usize, const MT: u8>() {
    // concrete message type per instance: a symbolic one makes the reader's error path
    // (which drops a ThriftException inside map_err) feasible - 3 s -> 120 s measured;
    // invalid type codes are covered by l1_type_tables and the C09 harnesses
    let mt = match MT {
        1 => TMessageType::Call,
        2 => TMessageType::Reply,
        3 => TMessageType::Exception,
        _ => TMessageType::OneWay,
    };
    let seq: i32 = kani::any();
    let name: [u8; NLEN] = kani::any();
    let mut i = 0;
    while i < NLEN {
        kani::assume(name[i] < 0x80);
        i += 1;
    }
    let leaked: &'static [u8; NLEN] = Box::leak(Box::new(name));
    let s: &'static str = unsafe { core::str::from_utf8_unchecked(&leaked[..]) };
    let ident = TMessageIdentifier::new(FastStr::from_static_str(s), mt, seq);
    let mut out = BytesMut::with_capacity(32);
    let n;
    {
        let mut w = P::writer(&mut out);
        n = w.message_begin_len(&ident) + w.message_end_len();
        ok(w.write_message_begin(&ident));
        ok(w.write_message_end());
        P::finish(w);
    }
    chk!(WHICH == C04, out.len() == n, "C04: reported length equals bytes written");
    let mut o = rt::Out::<32>::new();
    match P::WIRE {
        Wire::Binary => rt::bin_msg(&mut o, mt as u8, &leaked[..], seq, false),
        Wire::BinaryLe => rt::bin_msg(&mut o, mt as u8, &leaked[..], seq, true),
        Wire::Compact => rt::cmp_msg(&mut o, mt as u8, &leaked[..], seq),
    }
    chk!(WHICH == C03, o.eq_slice(&out[..]), "C03: message header equals the reference encoding");
    let tail: [u8; 2] = kani::any();
    out.put_slice(&tail);
    let mut b = out.freeze();
    let mut r = P::reader(&mut b);
    let m = ok(r.read_message_begin());
    ok(r.read_message_end());
    chk!(WHICH == C01, m.message_type == mt && m.sequence_number == seq, "C01: message type and sequence id read back");
    chk!(WHICH == C01, m.name.as_bytes() == &leaked[..], "C01: message name read back");
    chk!(WHICH == C01, P::remaining(&mut r) == 2, "C01: reader consumed exactly the bytes written");
    kani::cover!(seq < 0, "negative sequence id");
    kani::cover!(true, "reached end");
    core::mem::forget(m);
    core::mem::forget(ident);
    core::mem::forget(r);
    core::mem::forget(b);
}

/// Type-code tables, all 256 byte values (C03: codes outside the specification are rejected).
/// `TType::Void = 1` is a pilota-internal code; header readers accept it, skipping it errs
/// (asserted in the C07 harnesses), so data carrying it is still rejected.
#[cfg(kani)]
pub fn l1_type_tables() {
    use pilota::thrift::compact::TCompactType;
    let b: u8 = kani::any();
    let r = TType::try_from(b);
    let valid = rt::bt::is_valid(b) || b == 1;
    kani::assert(r.is_ok() == valid, "C03: TType::try_from accepts exactly the specification's codes (+ internal Void)");
    if let Ok(t) = &r {
        kani::assert(u8::from(*t) == b, "C03: TType -> u8 is the inverse of try_from");
    }
    core::mem::forget(r);
    let c = TCompactType::try_from(b);
    kani::assert(c.is_ok() == (b <= 13), "C03: TCompactType::try_from accepts exactly codes 0..=13");
    if let Ok(ct) = &c {
        kani::assert(*ct as u8 == b, "C03: TCompactType code is preserved");
        // compact -> ttype mapping of the spec
        let tt = TType::try_from(*ct);
        let expect: u8 = match b {
            0 => 0,
            1 | 2 => rt::bt::BOOL,
            3 => rt::bt::I8,
            4 => rt::bt::I16,
            5 => rt::bt::I32,
            6 => rt::bt::I64,
            7 => rt::bt::DOUBLE,
            8 => rt::bt::BINARY,
            9 => rt::bt::LIST,
            10 => rt::bt::SET,
            11 => rt::bt::MAP,
            12 => rt::bt::STRUCT,
            _ => rt::bt::UUID,
        };
        match &tt {
            Ok(t) => kani::assert(*t as u8 == expect, "C03: compact type code maps to the TType of the spec"),
            Err(_) => kani::assert(false, "C03: every compact code maps to a TType"),
        }
        core::mem::forget(tt);
    }
    core::mem::forget(c);
    // ttype -> compact mapping (writer side) for every data type
    let t = any_data_ttype(true);
    let c2 = TCompactType::try_from(t);
    match &c2 {
        Ok(ct) => kani::assert(*ct as u8 == rt::compact_of_binary(t as u8), "C03: TType maps to the compact code of the spec"),
        Err(_) => kani::assert(false, "C03: every data TType has a compact code"),
    }
    core::mem::forget(c2);
    let m: u8 = kani::any();
    let mr = TMessageType::try_from(m);
    kani::assert(mr.is_ok() == (m >= 1 && m <= 4), "C03: message type codes 1..=4 only");
    if let Ok(mt) = &mr {
        kani::assert(u8::from(*mt) == m, "C03: message type code preserved");
    }
    core::mem::forget(mr);
    kani::cover!(true, "reached end");
}

/// Compact message envelope, decomposed (the monolithic write->read harness does not fit the
/// memory cap: every offset after the symbolic-length seqid varint becomes symbolic):
///  (w) writer output equals the reference encoding for every seqid/name  [+ C04 length]
///  (r) reader inverts the reference encoding, one instance per seqid varint length SL in 1..=5
/// (w) and (r) together give reader(writer(m)) == m for every m.
#[cfg(kani)]
pub fn l1_cmsg_write<const WHICH: u8, const NLEN: usize, const MT: u8>() {
    let mt = match MT {
        1 => TMessageType::Call,
        2 => TMessageType::Reply,
        3 => TMessageType::Exception,
        _ => TMessageType::OneWay,
    };
    let seq: i32 = kani::any();
    let name: [u8; NLEN] = kani::any();
    let mut i = 0;
    while i < NLEN {
        kani::assume(name[i] < 0x80);
        i += 1;
    }
    let leaked: &'static [u8; NLEN] = Box::leak(Box::new(name));
    let s: &'static str = unsafe { core::str::from_utf8_unchecked(&leaked[..]) };
    let ident = TMessageIdentifier::new(FastStr::from_static_str(s), mt, seq);
    let mut out = BytesMut::with_capacity(32);
    let n;
    {
        let mut w = PCompact::writer(&mut out);
        n = w.message_begin_len(&ident) + w.message_end_len();
        ok(w.write_message_begin(&ident));
        ok(w.write_message_end());
        PCompact::finish(w);
    }
    chk!(WHICH == C04, out.len() == n, "C04: reported length equals bytes written");
    let mut o = rt::Out::<32>::new();
    rt::cmp_msg(&mut o, mt as u8, &leaked[..], seq);
    chk!(WHICH == C03 || WHICH == C01, o.eq_slice(&out[..]), "C01/C03: compact message header equals the reference encoding");
    kani::cover!(seq < 0, "negative sequence id");
    kani::cover!(true, "reached end");
    core::mem::forget(ident);
    core::mem::forget(out);
}

#[cfg(kani)]
pub fn l1_cmsg_read<const SL: usize, const MT: u8>() {
    // seqid: SL varint bytes with symbolic payload bits (every u32 whose varint has SL bytes,
    // plus non-canonical encodings with leading zero groups)
    let raw: [u8; 5] = kani::any();
    let name: [u8; 2] = kani::any();
    kani::assume(name[0] < 0x80 && name[1] < 0x80);
    let mut arr = [0u8; 12];
    arr[0] = 0x82;
    arr[1] = (MT << 5) | 1;
    let mut i = 0;
    while i < SL {
        arr[2 + i] = if i + 1 < SL { raw[i] | 0x80 } else { raw[i] & 0x7f };
        i += 1;
    }
    if SL == 5 {
        kani::assume(arr[6] <= 0x0f); // fits 32 bits
    }
    arr[2 + SL] = 2;
    arr[3 + SL] = name[0];
    arr[4 + SL] = name[1];
    let total = 5 + SL;
    let expect = match rt::varint_decode(&arr[2..], 5) {
        Some((v, n)) => {
            kani::assert(n == SL, "HARNESS: reference decode length");
            v as u32 as i32
        }
        None => {
            kani::assert(false, "HARNESS: reference decode");
            0
        }
    };
    let mut b = static_input(arr);
    let mut r = PCompact::reader(&mut b);
    let m = ok(r.read_message_begin());
    ok(r.read_message_end());
    kani::assert(m.message_type as u8 == MT && m.sequence_number == expect, "C01: message type and sequence id read back");
    kani::assert(m.name.as_bytes() == &name[..], "C01: message name read back");
    kani::assert(PCompact::remaining(&mut r) == 12 - total, "C01: reader consumed exactly the header bytes");
    kani::cover!(SL < 5 || expect < 0, "negative sequence id (5-byte varints only)");
    kani::cover!(true, "reached end");
    core::mem::forget(m);
    core::mem::forget(r);
    core::mem::forget(b);
}

/// C03, reference -> pilota: any non-zero byte is `true` in the binary protocol (spec: legal
/// alternative form); compact element bools: 1 = true, 2 = false.
#[cfg(kani)]
pub fn l1_bool_any_byte<P: Proto>() {
    let b: u8 = kani::any();
    let mut buf = static_input([b, 9, 9]);
    let mut r = P::reader(&mut buf);
    let got = r.read_bool();
    match P::WIRE {
        Wire::Compact => {
            if b == 1 || b == 2 {
                match &got {
                    Ok(v) => kani::assert(*v == (b == 1), "C03: compact element bool 1 = true, 2 = false"),
                    Err(_) => kani::assert(false, "C03: compact element bool 1/2 must decode"),
                }
            }
        }
        _ => match &got {
            Ok(v) => kani::assert(*v == (b != 0), "C03: any non-zero byte is true in the binary protocol"),
            Err(_) => kani::assert(false, "C03: a bool byte always decodes in the binary protocol"),
        },
    }
    kani::assert(P::remaining(&mut r) == 2, "C03: bool consumes one byte");
    kani::cover!(true, "reached end");
    core::mem::forget(got);
    core::mem::forget(r);
    core::mem::forget(buf);
}

/// C03, reference -> pilota: compact field header in the LONG form although the delta form
/// would fit (legal alternative), and delta form with every delta 1..=15.
#[cfg(kani)]
pub fn l1_compact_field_alt_forms() {
    let last: i16 = kani::any();
    let id: i16 = kani::any();
    kani::assume(last >= 0 && id > last && (id as i32 - last as i32) <= 15);
    let long: bool = kani::any();
    let x: i8 = kani::any();
    let mut o = rt::Out::<16>::new();
    // first field establishes `last` (long form), then the field under test, then stop
    rt::cmp_field(&mut o, 0, last, rt::ct::I8, true);
    o.put(x as u8);
    rt::cmp_field(&mut o, last, id, rt::ct::I8, long);
    o.put(x as u8);
    o.put(0);
    let n = o.n;
    let mut b = static_input(o.b);
    b.truncate(n);
    let mut r = PCompact::reader(&mut b);
    ok(r.read_struct_begin());
    let f = ok(r.read_field_begin());
    kani::assert(f.id == Some(last), "C03: first field id");
    ok(r.read_i8());
    ok(r.read_field_end());
    let f = ok(r.read_field_begin());
    kani::assert(f.field_type == TType::I8 && f.id == Some(id), "C03: reader accepts long-form and every delta-form header of the reference encoder");
    kani::assert(ok(r.read_i8()) == x, "C03: value after the header");
    ok(r.read_field_end());
    let f = ok(r.read_field_begin());
    kani::assert(f.field_type == TType::Stop, "C03: stop");
    kani::cover!(id - last == 15 && !long, "delta 15 in short form");
    kani::cover!(long, "long form although the delta fits");
    kani::cover!(true, "reached end");
    core::mem::forget(r);
    core::mem::forget(b);
}

/// C03: the standard application-exception struct {1: string message, 2: i32 type}, both
/// directions, against the reference encoder.
#[cfg(kani)]
pub fn l1_app_exception<P: Proto, const DIR: u8>() {
    use pilota::thrift::{ApplicationException, ApplicationExceptionKind};
    let le = P::WIRE == Wire::BinaryLe;
    let kind: i32 = kani::any();
    let m: [u8; 2] = kani::any();
    kani::assume(m[0] < 0x80 && m[1] < 0x80);
    let leaked: &'static [u8; 2] = Box::leak(Box::new(m));
    let s: &'static str = unsafe { core::str::from_utf8_unchecked(&leaked[..]) };
    let mut e = rt::Out::<32>::new();
    rt::bin_field(&mut e, rt::bt::BINARY, 1, le);
    rt::bin_binary(&mut e, &leaked[..], le);
    rt::bin_field(&mut e, rt::bt::I32, 2, le);
    rt::bin_i32(&mut e, kind, le);
    e.put(0);
    if DIR == 0 {
        let x = ApplicationException::new(ApplicationExceptionKind::from_i32(kind), FastStr::from_static_str(s));
        let mut out = BytesMut::with_capacity(32);
        let n;
        {
            let mut tw = BytesMut::with_capacity(32);
            let mut t = P::writer(&mut tw);
            n = x.size(&mut t);
            core::mem::forget(t);
            core::mem::forget(tw);
        }
        {
            let mut w = P::writer(&mut out);
            ok(x.encode(&mut w));
            P::finish(w);
        }
        kani::assert(e.eq_bytes(&out[..]), "C03: application exception is written as struct {1: string message, 2: i32 type}");
        kani::assert(out.len() == n, "C04: size() of the application exception equals the bytes written");
        core::mem::forget(x);
        core::mem::forget(out);
    } else {
        let n = e.n;
        let mut b = static_input(e.b);
        b.truncate(n);
        let mut r = P::reader(&mut b);
        let got: ApplicationException = ok(Message::decode(&mut r));
        kani::assert(got.kind().as_i32() == kind, "C03: application exception type is read from field 2");
        kani::assert(got.message().as_bytes() == &leaked[..], "C03: application exception message is read from field 1");
        kani::assert(P::remaining(&mut r) == 0, "C03: the exception struct is consumed exactly");
        core::mem::forget(got);
        core::mem::forget(r);
        core::mem::forget(b);
    }
    kani::cover!(true, "reached end");
}

/// zigzag varint of exactly L bytes with symbolic payload bits restricted to 32-bit values;
/// returns (bytes, unsigned varint value)
#[cfg(kani)]
pub fn sym_zz_varint<const L: usize>() -> ([u8; L], u64) {
    let raw: [u8; L] = kani::any();
    let mut out = [0u8; L];
    let mut v: u64 = 0;
    let mut i = 0;
    while i < L {
        let payload = raw[i] & 0x7f;
        if i == 4 {
            kani::assume(payload <= 0x0f);
        }
        out[i] = if i + 1 < L { payload | 0x80 } else { payload };
        v |= (payload as u64) << (7 * i as u32);
        i += 1;
    }
    (out, v)
}
