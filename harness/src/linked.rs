//! C01, LinkedBytes output: the LinkedBytes writer of each protocol produces exactly the bytes
//! of the BytesMut writer for the same call sequence (zero-copy flag symbolic; payloads below
//! the threshold), so the round-trip results for BytesMut carry over. Plus the zero-copy
//! branch with one 4096-byte payload (node inserted, nothing copied).
#![allow(unused)]
use crate::common::*;
use crate::protos::*;
use crate::skip::{self, Leaves};
use linkedbytes::{LinkedBytes, Node};

#[cfg(kani)]
fn write_seq<W: TOutputProtocol>(w: &mut W, shape: u8, prev: i16, id: i16, after: i16, l: &Leaves) {
    ok(w.write_struct_begin(&SID));
    ok(w.write_field_begin(TType::I8, prev));
    ok(w.write_i8(l.i8s[1]));
    ok(w.write_field_end());
    ok(w.write_field_begin(skip::ttype_of_shape(shape), id));
    skip::write_shape(w, shape, l);
    ok(w.write_field_end());
    ok(w.write_field_begin(TType::I8, after));
    ok(w.write_i8(l.i8s[0]));
    ok(w.write_field_end());
    ok(w.write_field_stop());
    ok(w.write_struct_end());
}

/// struct { prev: i8 ; id: <shape> ; after: i8 ; stop } with symbolic, arbitrarily ordered ids
#[cfg(kani)]
pub fn linked_vs_contiguous<LP: LProto, P: Proto, const SHAPE: u8>() {
    let l = Leaves::any();
    let prev: i16 = kani::any();
    let id: i16 = kani::any();
    let after: i16 = kani::any();
    // differences representable in i16 (the far case is l1_field_far)
    kani::assume(prev > -8000 && prev < 8000 && id > -8000 && id < 8000 && after > -8000 && after < 8000);
    let zc: bool = kani::any();
    let mut a = BytesMut::with_capacity(96);
    {
        let mut w = P::writer(&mut a);
        write_seq(&mut w, SHAPE, prev, id, after, &l);
        P::finish(w);
    }
    let mut lb = LinkedBytes::with_capacity(96);
    {
        let mut w = LP::writer(&mut lb, zc);
        write_seq(&mut w, SHAPE, prev, id, after, &l);
        LP::finish(w);
    }
    let o = concat::<96>(&lb);
    kani::assert(o.eq_bytes(&a[..]), "C01: LinkedBytes writer emits the same bytes as the BytesMut writer");
    kani::cover!(id < prev && after > id && after - id < 15, "long form followed by short form");
    kani::cover!(true, "reached end");
    core::mem::forget(a);
    core::mem::forget(lb);
}

/// Same with CONCRETE field ids (cheap): out-of-order and far-apart id patterns exercise the
/// compact writer's long-form/short-form state without symbolic header lengths.
#[cfg(kani)]
pub fn linked_vs_contiguous_ids<LP: LProto, P: Proto, const SHAPE: u8, const PREV: i16, const ID: i16, const AFTER: i16>() {
    let l = Leaves::any();
    let zc: bool = kani::any();
    let mut a = BytesMut::with_capacity(96);
    {
        let mut w = P::writer(&mut a);
        write_seq(&mut w, SHAPE, PREV, ID, AFTER, &l);
        P::finish(w);
    }
    let mut lb = LinkedBytes::with_capacity(96);
    {
        let mut w = LP::writer(&mut lb, zc);
        write_seq(&mut w, SHAPE, PREV, ID, AFTER, &l);
        LP::finish(w);
    }
    let o = concat::<96>(&lb);
    kani::assert(o.eq_bytes(&a[..]), "C01: LinkedBytes writer emits the same bytes as the BytesMut writer");
    kani::cover!(true, "reached end");
    core::mem::forget(a);
    core::mem::forget(lb);
}

/// zero-copy branch: 4096-byte binary with zero_copy on is attached as a node, not copied
#[cfg(kani)]
pub fn linked_zero_copy<LP: LProto>() {
    let head: [u8; 2] = kani::any();
    let mut payload = [0u8; 4096];
    payload[0] = head[0];
    payload[4095] = head[1];
    let leaked: &'static [u8; 4096] = Box::leak(Box::new(payload));
    let b = Bytes::from_static(&leaked[..]);
    let x: i8 = kani::any();
    let mut lb = LinkedBytes::with_capacity(64);
    let zlen;
    {
        let mut w = LP::writer(&mut lb, true);
        ok(w.write_bytes(b));
        ok(w.write_i8(x));
        zlen = w.zero_copy_len();
        LP::finish(w);
    }
    kani::assert(zlen == 4096, "C01/C04: zero_copy_len reports the bytes attached as nodes");
    let mut n = 0;
    let mut prefix_ok = false;
    let mut node_ok = false;
    for node in lb.iter_list() {
        match (n, node) {
            (0, Node::BytesMut(p)) => {
                // length prefix of 4096 in the protocol's encoding
                prefix_ok = match LP::WIRE {
                    Wire::Binary => p.len() == 4 && p[0] == 0 && p[1] == 0 && p[2] == 0x10 && p[3] == 0,
                    Wire::BinaryLe => p.len() == 4 && p[0] == 0 && p[1] == 0x10 && p[2] == 0 && p[3] == 0,
                    Wire::Compact => p.len() == 2 && p[0] == 0x80 && p[1] == 0x20,
                };
            }
            (1, Node::Bytes(q)) => {
                node_ok = q.len() == 4096 && q.as_ptr() == leaked.as_ptr() && q[0] == head[0] && q[4095] == head[1];
            }
            _ => {}
        }
        n += 1;
    }
    kani::assert(n == 2 && prefix_ok, "C01: length prefix precedes the attached payload");
    kani::assert(node_ok, "C01: the 4096-byte payload is attached zero-copy and intact");
    kani::assert(lb.bytes().len() == 1 && lb.bytes()[0] == x as u8, "C01: bytes written after the attached payload follow it");
    kani::cover!(true, "reached end");
    core::mem::forget(lb);
}

/// write_bytes_without_len called DIRECTLY (as emitted code does for retained unknown fields)
/// while earlier bytes are still pending in the window: the pending bytes must precede the
/// attached 4096-byte chunk.
#[cfg(kani)]
pub fn linked_zero_copy_without_len<LP: LProto>() {
    let head: [u8; 2] = kani::any();
    let mut payload = [0u8; 4096];
    payload[0] = head[0];
    payload[4095] = head[1];
    let leaked: &'static [u8; 4096] = Box::leak(Box::new(payload));
    let b = Bytes::from_static(&leaked[..]);
    let x: i8 = kani::any();
    let y: i8 = kani::any();
    let mut lb = LinkedBytes::with_capacity(64);
    {
        let mut w = LP::writer(&mut lb, true);
        ok(w.write_i8(x));
        ok(w.write_bytes_without_len(b));
        ok(w.write_i8(y));
        LP::finish(w);
    }
    let mut n = 0;
    let mut before_ok = false;
    let mut node_ok = false;
    for node in lb.iter_list() {
        match (n, node) {
            (0, Node::BytesMut(p)) => before_ok = p.len() == 1 && p[0] == x as u8,
            (1, Node::Bytes(q)) => node_ok = q.len() == 4096 && q.as_ptr() == leaked.as_ptr(),
            _ => {}
        }
        n += 1;
    }
    kani::assert(n == 2 && before_ok, "C01/C11: bytes written before an attached chunk precede it");
    kani::assert(node_ok, "C01/C11: the chunk is attached zero-copy");
    kani::assert(lb.bytes().len() == 1 && lb.bytes()[0] == y as u8, "C01/C11: bytes written after the attached chunk follow it");
    kani::cover!(true, "reached end");
    core::mem::forget(lb);
}
