//! Layer L2: fixed value-tree shapes (harness/src/skip.rs) with symbolic leaves written and read
//! back through the typed API, followed by a second value on the same buffer read by the SAME
//! reader object (a reader that finished one value must behave like a fresh one).
#![allow(unused)]
use crate::chk;
use crate::common::*;
use crate::l0::{C01, C04};
use crate::protos::*;
use crate::skip::{self, Leaves};

#[cfg(kani)]
pub fn l2_shape<P: Proto, const WHICH: u8, const SHAPE: u8, const SECOND: u8>() {
    let l = Leaves::any();
    let l2 = Leaves::any();
    let mut out = BytesMut::with_capacity(96);
    let n;
    {
        let mut tw = BytesMut::with_capacity(96);
        let mut t = P::writer(&mut tw);
        n = skip::len_shape(&mut t, SHAPE, &l) + skip::len_shape(&mut t, SECOND, &l2);
        core::mem::forget(t);
        core::mem::forget(tw);
    }
    {
        let mut w = P::writer(&mut out);
        skip::write_shape(&mut w, SHAPE, &l);
        skip::write_shape(&mut w, SECOND, &l2);
        P::finish(w);
    }
    chk!(WHICH == C04, out.len() == n, "C04: summed lengths equal bytes written for the value tree");
    let tail: [u8; 2] = kani::any();
    out.put_slice(&tail);
    let mut b = out.freeze();
    let mut r = P::reader(&mut b);
    let g1 = skip::read_shape(&mut r, SHAPE, &l);
    chk!(WHICH == C01, g1, "C01: value tree read back equals value tree written");
    let g2 = skip::read_shape(&mut r, SECOND, &l2);
    chk!(WHICH == C01, g2, "C01: a following value on the same buffer is read as if the reader were fresh");
    chk!(WHICH == C01, P::remaining(&mut r) == 2, "C01: reader consumed exactly the bytes written");
    kani::cover!(true, "reached end");
    core::mem::forget(r);
    core::mem::forget(b);
}

/// Compact keeps the value of a bool FIELD in reader state (`pending_read_bool_value`). After the
/// field has been read, a bool that is NOT a field (a container element / bare value) must come
/// from the wire. struct{1: bool FB} is read field by field, then a bare symbolic bool follows on
/// the same reader (added after seed C01c). FB is concrete per instance: in compact it is part of
/// the field-header byte.
#[cfg(kani)]
pub fn l2_boolfield_then_bool<P: Proto, const FB: bool>() {
    let eb: bool = kani::any();
    let mut out = BytesMut::with_capacity(16);
    {
        let mut w = P::writer(&mut out);
        ok(w.write_struct_begin(&SID));
        ok(w.write_field_begin(TType::Bool, 1));
        ok(w.write_bool(FB));
        ok(w.write_field_end());
        ok(w.write_field_stop());
        ok(w.write_struct_end());
        ok(w.write_bool(eb));
        P::finish(w);
    }
    let mut b = out.freeze();
    let mut r = P::reader(&mut b);
    ok(r.read_struct_begin());
    let f = ok(r.read_field_begin());
    kani::assert(f.field_type == TType::Bool && f.id == Some(1), "C01: bool field header read back");
    let got_f = ok(r.read_bool());
    kani::assert(got_f == FB, "C01: bool field value read back");
    ok(r.read_field_end());
    let s = ok(r.read_field_begin());
    kani::assert(s.field_type == TType::Stop, "C01: stop read back");
    ok(r.read_struct_end());
    let got_e = ok(r.read_bool());
    kani::assert(got_e == eb, "C01: a following value on the same buffer is read as if the reader were fresh");
    kani::assert(P::remaining(&mut r) == 0, "C01: reader consumed exactly the bytes written");
    kani::cover!(FB != eb, "field bool differs from the following bool");
    kani::cover!(true, "reached end");
    core::mem::forget(r);
    core::mem::forget(b);
}
