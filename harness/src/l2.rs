//! Layer L2: fixed value-tree shapes (harness/src/skip.rs) with symbolic leaves written and read
//! back through the typed API, followed by a second value on the same buffer read by the SAME
//! reader object (a reader that finished one value must behave like a fresh one).
#![allow(unused)]
use crate::chk;
use crate::common::*;
use crate::l0::{C01, C04};
use crate::protos::*;
use crate::skip::{self, Leaves};

#[cfg(kani)]
pub fn l2_shape<P: Proto, const WHICH: u8, const SHAPE: u8, const SECOND: u8>() {
    let l = Leaves::any();
    let l2 = Leaves::any();
    let mut out = BytesMut::with_capacity(96);
    let n;
    {
        let mut tw = BytesMut::with_capacity(96);
        let mut t = P::writer(&mut tw);
        n = skip::len_shape(&mut t, SHAPE, &l) + skip::len_shape(&mut t, SECOND, &l2);
        core::mem::forget(t);
        core::mem::forget(tw);
    }
    {
        let mut w = P::writer(&mut out);
        skip::write_shape(&mut w, SHAPE, &l);
        skip::write_shape(&mut w, SECOND, &l2);
        P::finish(w);
    }
    chk!(WHICH == C04, out.len() == n, "C04: summed lengths equal bytes written for the value tree");
    let tail: [u8; 2] = kani::any();
    out.put_slice(&tail);
    let mut b = out.freeze();
    let mut r = P::reader(&mut b);
    let g1 = skip::read_shape(&mut r, SHAPE, &l);
    chk!(WHICH == C01, g1, "C01: value tree read back equals value tree written");
    let g2 = skip::read_shape(&mut r, SECOND, &l2);
    chk!(WHICH == C01, g2, "C01: a following value on the same buffer is read as if the reader were fresh");
    chk!(WHICH == C01, P::remaining(&mut r) == 2, "C01: reader consumed exactly the bytes written");
    kani::cover!(true, "reached end");
    core::mem::forget(r);
    core::mem::forget(b);
}
