//! C02 / C04(generated): emitted Thrift types round trip; size() == bytes encode() writes.
//! Values: constructors below (leaves symbolic, container sizes per instance, strings of the
//! stated length with symbolic content).
#![allow(unused)]
use crate::chk;
use crate::common::*;
use crate::gen_thrift::tb;
use crate::protos::*;

pub const C02: u8 = 2;
pub const C04: u8 = 4;

/// FastStr of exactly N symbolic ASCII bytes (static representation: no drop glue needed)
#[cfg(kani)]
pub fn any_faststr<const N: usize>() -> FastStr {
    let a: [u8; N] = kani::any();
    let mut i = 0;
    while i < N {
        kani::assume(a[i] < 0x80);
        i += 1;
    }
    let l: &'static [u8; N] = Box::leak(Box::new(a));
    FastStr::from_static_str(unsafe { core::str::from_utf8_unchecked(&l[..]) })
}

/// Encode with size()/encode(), decode, compare. CAP bounds the encoding.
#[cfg(kani)]
pub fn roundtrip<P: Proto, M: Message + PartialEq, const WHICH: u8>(v: M, cap: usize) {
    let n;
    {
        let mut tw = BytesMut::with_capacity(cap);
        let mut t = P::writer(&mut tw);
        n = v.size(&mut t);
        core::mem::forget(t);
        core::mem::forget(tw);
    }
    let mut out = BytesMut::with_capacity(cap);
    {
        let mut w = P::writer(&mut out);
        ok(v.encode(&mut w));
        P::finish(w);
    }
    chk!(WHICH == C04, out.len() == n, "C04: size() equals the bytes encode() writes (generated type)");
    let mut b = out.freeze();
    let mut r = P::reader(&mut b);
    let got: M = ok(M::decode(&mut r));
    chk!(WHICH == C02, P::remaining(&mut r) == 0, "C02: decode consumes exactly the encoded bytes");
    chk!(WHICH == C02, got == v, "C02: decode(encode(v)) == v");
    kani::cover!(true, "reached end");
    core::mem::forget(got);
    core::mem::forget(v);
    core::mem::forget(r);
    core::mem::forget(b);
}

#[cfg(kani)]
pub fn mk_inner<const SLEN: usize>(with_s: bool) -> tb::Inner {
    tb::Inner { x: kani::any(), s: if with_s { Some(any_faststr::<SLEN>()) } else { None } }
}
#[cfg(kani)]
pub fn inner_none<P: Proto, const W: u8>() {
    roundtrip::<P, _, W>(mk_inner::<0>(false), 32)
}
#[cfg(kani)]
pub fn inner_some2<P: Proto, const W: u8>() {
    roundtrip::<P, _, W>(mk_inner::<2>(true), 32)
}
#[cfg(kani)]
pub fn outer<P: Proto, const W: u8>() {
    // presence of every optional is concrete per instance: a symbolic presence bit makes the
    // layout of everything after it symbolic (measured: memory cap)
    let v = tb::Outer { inner: Some(mk_inner::<1>(true)), after: Some(kani::any()), flag: Some(kani::any()) };
    roundtrip::<P, _, W>(v, 48)
}
#[cfg(kani)]
pub fn outer_noinner<P: Proto, const W: u8>() {
    let v = tb::Outer { inner: None, after: None, flag: Some(kani::any()) };
    roundtrip::<P, _, W>(v, 48)
}
#[cfg(kani)]
pub fn scalars_num<P: Proto, const W: u8>() {
    // numeric half: every numeric field present with symbolic value
    let v = tb::Scalars {
        b: Some(kani::any()), i8v: Some(kani::any()), i16v: Some(kani::any()), i32v: kani::any(), i64v: Some(kani::any()),
        d: None, s: None, bin: None, oi: Some(kani::any()), color: Some(tb::Color::from(kani::any::<i32>())),
    };
    roundtrip::<P, _, W>(v, 64)
}
#[cfg(kani)]
pub fn scalars_rest<P: Proto, const W: u8>() {
    let bits: u64 = kani::any();
    // NaN != NaN under the derived PartialEq; the bit-exact double round trip is asserted at L0
    kani::assume(!f64::from_bits(bits).is_nan());
    let p: [u8; 2] = kani::any();
    let l: &'static [u8; 2] = Box::leak(Box::new(p));
    let v = tb::Scalars {
        b: None, i8v: None, i16v: None, i32v: kani::any(), i64v: None,
        d: Some(f64::from_bits(bits)), s: Some(any_faststr::<1>()), bin: Some(Bytes::from_static(&l[..])), oi: None, color: None,
    };
    roundtrip::<P, _, W>(v, 64)
}
#[cfg(kani)]
pub fn lists<P: Proto, const W: u8, const NI: usize, const NS: usize, const NIN: usize>() {
    let mut li = Vec::with_capacity(NI);
    let mut i = 0;
    while i < NI {
        li.push(kani::any::<i32>());
        i += 1;
    }
    let mut ls = Vec::with_capacity(NS);
    let mut i = 0;
    while i < NS {
        ls.push(any_faststr::<1>());
        i += 1;
    }
    let mut lin = Vec::with_capacity(NIN);
    let mut i = 0;
    while i < NIN {
        lin.push(mk_inner::<0>(false));
        i += 1;
    }
    let v = tb::Lists { li: Some(li), ls: if NS > 0 { Some(ls) } else { None }, lin: Some(lin) };
    roundtrip::<P, _, W>(v, 96)
}
#[cfg(kani)]
pub fn maps<P: Proto, const W: u8, const N: usize>() {
    let mut m = std::collections::BTreeMap::new();
    let mut st = std::collections::BTreeSet::new();
    if N > 0 {
        m.insert(kani::any::<i32>(), any_faststr::<1>());
        st.insert(kani::any::<i32>());
    }
    let v = tb::Maps { m: Some(m), st: Some(st) };
    roundtrip::<P, _, W>(v, 64)
}
#[cfg(kani)]
pub fn union_a<P: Proto, const W: u8>() {
    roundtrip::<P, _, W>(tb::U::A(kani::any()), 32)
}
#[cfg(kani)]
pub fn union_b<P: Proto, const W: u8>() {
    roundtrip::<P, _, W>(tb::U::B(any_faststr::<2>()), 32)
}
#[cfg(kani)]
pub fn union_c<P: Proto, const W: u8>() {
    roundtrip::<P, _, W>(tb::U::C(mk_inner::<0>(false)), 32)
}
/// The one permitted difference: an absent optional field with an IDL default comes back
/// holding the default (values hand-derived from corpus/t_basic.thrift `Defaults`).
#[cfg(kani)]
pub fn defaults<P: Proto, const W: u8, const PRESENT: bool>() {
    let a: Option<i32> = if PRESENT { Some(kani::any()) } else { None };
    let b: Option<i32> = if PRESENT { Some(kani::any()) } else { None };
    let t: Option<bool> = if PRESENT { Some(kani::any()) } else { None };
    let v = tb::Defaults { a, b, s: None, t, c: None, d: None };
    let mut out = BytesMut::with_capacity(64);
    {
        let mut w = P::writer(&mut out);
        ok(v.encode(&mut w));
        P::finish(w);
    }
    let mut bts = out.freeze();
    let mut r = P::reader(&mut bts);
    let got: tb::Defaults = ok(Message::decode(&mut r));
    chk!(W == C02, got.a == Some(a.unwrap_or(7)), "C02: default-requiredness field with IDL default 7");
    chk!(W == C02, got.b == Some(b.unwrap_or(9)), "C02: absent optional with IDL default comes back holding the default 9");
    chk!(W == C02, got.t == Some(t.unwrap_or(true)), "C02: bool default true");
    chk!(W == C02, got.s.as_deref() == Some("hi"), "C02: string default \"hi\"");
    chk!(W == C02, got.c == Some(tb::Color::GREEN), "C02: enum default Color.GREEN");
    chk!(W == C02, got.d == Some(2.0), "C02: double default from int literal 2");
    chk!(W == C02, P::remaining(&mut r) == 0, "C02: decode consumes exactly the encoded bytes");
    kani::cover!(true, "reached end");
    core::mem::forget(got);
    core::mem::forget(v);
    core::mem::forget(r);
    core::mem::forget(bts);
}
#[cfg(kani)]
pub fn tree<P: Proto, const W: u8, const DEPTH: usize>() {
    let mut t = tb::Tree { left: None, v: Some(kani::any()) };
    let mut i = 0;
    while i < DEPTH {
        t = tb::Tree { left: Some(Box::new(t)), v: if i % 2 == 0 { Some(kani::any()) } else { None } };
        i += 1;
    }
    roundtrip::<P, _, W>(t, 64)
}
#[cfg(kani)]
pub fn typedef_id<P: Proto, const W: u8>() {
    roundtrip::<P, _, W>(tb::Id(kani::any()), 16)
}
#[cfg(kani)]
pub fn enum_color<P: Proto, const W: u8>() {
    roundtrip::<P, _, W>(tb::Color::from(kani::any::<i32>()), 16)
}
#[cfg(kani)]
pub fn exception_oops<P: Proto, const W: u8>() {
    roundtrip::<P, _, W>(tb::Oops { why: Some(any_faststr::<1>()), id: Some(tb::Id(kani::any())) }, 48)
}
#[cfg(kani)]
pub fn args_get<P: Proto, const W: u8>() {
    // method argument struct as sent (SvcGetArgsSend) is decoded by the receiving side type
    let send = tb::SvcGetArgsSend { id: tb::Id(kani::any()), hint: mk_inner::<0>(false) };
    let mut out = BytesMut::with_capacity(64);
    let n;
    {
        let mut tw = BytesMut::with_capacity(64);
        let mut t = P::writer(&mut tw);
        n = send.size(&mut t);
        core::mem::forget(t);
        core::mem::forget(tw);
    }
    {
        let mut w = P::writer(&mut out);
        ok(send.encode(&mut w));
        P::finish(w);
    }
    chk!(W == C04, out.len() == n, "C04: size() equals the bytes encode() writes (generated type)");
    let mut b = out.freeze();
    let mut r = P::reader(&mut b);
    let got: tb::SvcGetArgsRecv = ok(Message::decode(&mut r));
    chk!(W == C02, got.id == send.id && got.hint == send.hint, "C02: method arguments decode to what was sent");
    chk!(W == C02, P::remaining(&mut r) == 0, "C02: decode consumes exactly the encoded bytes");
    kani::cover!(true, "reached end");
    core::mem::forget(got);
    core::mem::forget(send);
    core::mem::forget(r);
    core::mem::forget(b);
}
#[cfg(kani)]
pub fn result_get<P: Proto, const W: u8, const VARIANT: u8>() {
    let send = if VARIANT == 0 { tb::SvcGetResultSend::Ok(mk_inner::<0>(false)) } else { tb::SvcGetResultSend::Oops(tb::Oops { why: None, id: Some(tb::Id(kani::any())) }) };
    let mut out = BytesMut::with_capacity(64);
    {
        let mut w = P::writer(&mut out);
        ok(send.encode(&mut w));
        P::finish(w);
    }
    let mut b = out.freeze();
    let mut r = P::reader(&mut b);
    let got: tb::SvcGetResultRecv = ok(Message::decode(&mut r));
    let same = match (&send, &got) {
        (tb::SvcGetResultSend::Ok(a), tb::SvcGetResultRecv::Ok(b)) => a == b,
        (tb::SvcGetResultSend::Oops(a), tb::SvcGetResultRecv::Oops(b)) => a == b,
        _ => false,
    };
    chk!(W == C02, same, "C02: method result decodes to what was sent");
    chk!(W == C02, P::remaining(&mut r) == 0, "C02: decode consumes exactly the encoded bytes");
    kani::cover!(true, "reached end");
    core::mem::forget(got);
    core::mem::forget(send);
    core::mem::forget(r);
    core::mem::forget(b);
}
#[cfg(kani)]
pub fn result_void<P: Proto, const W: u8>() {
    // empty reply of a void method means success
    let send = tb::SvcPingResultSend::Ok(());
    let mut out = BytesMut::with_capacity(16);
    {
        let mut w = P::writer(&mut out);
        ok(send.encode(&mut w));
        P::finish(w);
    }
    let mut b = out.freeze();
    let mut r = P::reader(&mut b);
    let got: tb::SvcPingResultRecv = ok(Message::decode(&mut r));
    chk!(W == C02, matches!(got, tb::SvcPingResultRecv::Ok(())), "C02: empty reply of a void method decodes as success");
    chk!(W == C02, P::remaining(&mut r) == 0, "C02: decode consumes exactly the encoded bytes");
    kani::cover!(true, "reached end");
    core::mem::forget(r);
    core::mem::forget(b);
}

/// typedef of an enum and typedef of a typedef as field types (wire type must be the aliased one)
#[cfg(kani)]
pub fn aliases<P: Proto, const W: u8>() {
    let v = tb::Aliases { paint: tb::Paint(tb::Color::from(kani::any::<i32>())), account: Some(tb::AccountId(tb::Id(kani::any()))), plain: Some(kani::any()) };
    roundtrip::<P, _, W>(v, 48)
}
