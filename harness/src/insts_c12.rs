//! C12 (partial) harness instances: binary async readers, every 2-chunk split of the value.
#![allow(unused)]
use crate::asyncp::{self, *};
use paste::paste;
macro_rules! ab {
    ($tier:ident, $api:ident, $split:expr, $pend:expr, $unw:expr) => { paste! {
        crate::proof!{ #[kani::unwind($unw)] fn [<c12_ $tier _bin_ $api:lower _split $split _pend_ $pend>]() { asyncp::async_binary::<{asyncp::$api}, $split, $pend>() } }
    }};
}
ab!(x, A_STRING2, 5, false, 9);
ab!(x, A_STRING2, 5, true, 9);
ab!(x, A_STRING2, 2, false, 9);
ab!(x, A_STRING2, 4, true, 9);
ab!(x, A_STRING2, 0, false, 9);
ab!(x, A_I32, 2, true, 9);
ab!(x, A_I32, 1, false, 9);
ab!(x, A_I32, 3, false, 9);
ab!(x, A_I64, 5, false, 9);
ab!(x, A_I16, 1, true, 9);
ab!(x, A_BOOL, 0, true, 9);
ab!(x, A_BYTES2, 5, false, 9);
ab!(x, A_BYTES2, 3, true, 9);
ab!(x, A_FIELD, 1, false, 9);
ab!(x, A_FIELD, 2, true, 9);
