//! Decomposed C02/C04 instances for the larger emitted types.
#![allow(unused)]
use crate::c02::{C02, C04};
use crate::c02d::{self, D_R, D_W};
use paste::paste;
macro_rules! dd {
    ($tier:ident, $f:ident, $unw:expr) => { paste! {
        crate::proof!{ #[kani::unwind($unw)] fn [<c02_ $tier _gend_ $f _w>]() { c02d::$f::<{D_W}, {C02}>() } }
        crate::proof!{ #[kani::unwind($unw)] fn [<c04_ $tier _gend_ $f _w>]() { c02d::$f::<{D_W}, {C04}>() } }
        crate::proof!{ #[kani::unwind($unw)] fn [<c02_ $tier _gend_ $f _r>]() { c02d::$f::<{D_R}, {C02}>() } }
    }};
}
dd!(q, outer, 6);
dd!(q, scalars_num, 10);
dd!(q, lists, 6);
dd!(q, scalars_rest, 7);
// maps: (r) is conclusive, (w) (BTreeMap iteration inside emitted encode) is not
crate::proof!{ #[kani::unwind(5)] fn c02_q_gend_maps_r() { c02d::maps::<{D_R}, {C02}>() } }
crate::proof!{ #[kani::unwind(5)] fn c02_x_gend_maps_w() { c02d::maps::<{D_W}, {C02}>() } }
#[cfg(kani)]
mod u {
    use super::*;
    pub fn union_b<const D: u8, const W: u8>() { c02d::union_bc::<D, W, 0>() }
    pub fn union_c<const D: u8, const W: u8>() { c02d::union_bc::<D, W, 1>() }
    pub fn inner_compact_w<const W: u8>() { c02d::inner_compact::<{D_W}, W, 1>() }
}
macro_rules! dd2 {
    ($tier:ident, $n:ident, $unw:expr, $($f:tt)*) => { paste! {
        crate::proof!{ #[kani::unwind($unw)] fn [<c02_ $tier _gend_ $n _w>]() { $($f)*::<{D_W}, {C02}>() } }
        crate::proof!{ #[kani::unwind($unw)] fn [<c04_ $tier _gend_ $n _w>]() { $($f)*::<{D_W}, {C04}>() } }
        crate::proof!{ #[kani::unwind($unw)] fn [<c02_ $tier _gend_ $n _r>]() { $($f)*::<{D_R}, {C02}>() } }
    }};
}
dd2!(t, union_b, 5, u::union_b);
dd2!(t, union_c, 5, u::union_c);
// compact protocol, emitted Inner
crate::proof!{ #[kani::unwind(7)] fn c02_t_gend_inner_compact_w() { u::inner_compact_w::<{C02}>() } }
crate::proof!{ #[kani::unwind(7)] fn c04_t_gend_inner_compact_w() { u::inner_compact_w::<{C04}>() } }
crate::proof!{ #[kani::unwind(7)] fn c02_t_gend_inner_compact_r1() { c02d::inner_compact::<{D_R}, {C02}, 1>() } }
crate::proof!{ #[kani::unwind(7)] fn c02_t_gend_inner_compact_r5() { c02d::inner_compact::<{D_R}, {C02}, 5>() } }
