//! Decomposed C02/C04 instances for the larger emitted types.
#![allow(unused)]
use crate::c02::{C02, C04};
use crate::c02d::{self, D_R, D_W};
use paste::paste;
macro_rules! dd {
    ($tier:ident, $f:ident, $unw:expr) => { paste! {
        crate::proof!{ #[kani::unwind($unw)] fn [<c02_ $tier _gend_ $f _w>]() { c02d::$f::<{D_W}, {C02}>() } }
        crate::proof!{ #[kani::unwind($unw)] fn [<c04_ $tier _gend_ $f _w>]() { c02d::$f::<{D_W}, {C04}>() } }
        crate::proof!{ #[kani::unwind($unw)] fn [<c02_ $tier _gend_ $f _r>]() { c02d::$f::<{D_R}, {C02}>() } }
    }};
}
dd!(t, outer, 6);
dd!(t, scalars_num, 10);
dd!(t, lists, 6);
dd!(t, maps, 5);
