//! C09(b): emitted decoders on a valid skeleton cut at EVERY offset (one instance per cut), and
//! with one length prefix overwritten by a fully symbolic value.
//! Skeleton (binary): Inner{1: required i32 x, 2: optional string s(2 bytes)} =
//!   [08 00 01 x0 x1 x2 x3] [0b 00 02 00 00 00 02 p0 p1] [00]   (17 bytes, payloads symbolic)
#![allow(unused)]
use crate::common::*;
use crate::gen_thrift::tb;
use crate::protos::*;

#[cfg(kani)]
fn skeleton(le: bool) -> [u8; 17] {
    let x: [u8; 4] = kani::any();
    let p: [u8; 2] = kani::any();
    kani::assume(p[0] < 0x80 && p[1] < 0x80);
    if le {
        [8, 1, 0, x[0], x[1], x[2], x[3], 11, 2, 0, 2, 0, 0, 0, p[0], p[1], 0]
    } else {
        [8, 0, 1, x[0], x[1], x[2], x[3], 11, 0, 2, 0, 0, 0, 2, p[0], p[1], 0]
    }
}

/// every strict prefix is rejected with an error (no panic); the full skeleton decodes
#[cfg(kani)]
pub fn inner_cut<P: Proto, const CUT: usize>() {
    let data = skeleton(P::WIRE == Wire::BinaryLe);
    let leaked: &'static [u8; 17] = Box::leak(Box::new(data));
    let mut b = Bytes::from_static(&leaked[..CUT]);
    let mut r = P::reader(&mut b);
    let res: Result<tb::Inner, _> = Message::decode(&mut r);
    if CUT < 17 {
        kani::assert(res.is_err(), "C09: every strict prefix of a valid struct encoding is rejected with an error");
    } else {
        match &res {
            Ok(v) => kani::assert(v.x == i32::from_be_bytes([data[3], data[4], data[5], data[6]]) || P::WIRE == Wire::BinaryLe, "C09: the complete skeleton decodes"),
            Err(_) => kani::assert(false, "C09: the complete skeleton decodes"),
        }
    }
    kani::cover!(true, "reached end");
    core::mem::forget(res);
    core::mem::forget(r);
    core::mem::forget(b);
}

/// the string's length prefix overwritten with ANY 32-bit value: a value or an error, no panic,
/// and an Ok result never claims more bytes than the input holds
#[cfg(kani)]
pub fn inner_corrupt_len<P: Proto>() {
    let mut data = skeleton(false);
    let l: [u8; 4] = kani::any();
    data[10] = l[0];
    data[11] = l[1];
    data[12] = l[2];
    data[13] = l[3];
    let mut b = static_input(data);
    let mut r = P::reader(&mut b);
    let res: Result<tb::Inner, _> = Message::decode(&mut r);
    let declared = i32::from_be_bytes(l);
    if declared < 0 || declared > 3 {
        kani::assert(res.is_err(), "C09: a length prefix larger than the remaining input (or negative) is rejected");
    }
    if let Ok(v) = &res {
        if let Some(s) = &v.s {
            kani::assert(s.len() <= 3, "C09: a decoded string is never longer than the input could back");
        }
    }
    kani::cover!(res.is_ok(), "some corrupted length still decodes");
    kani::cover!(true, "reached end");
    core::mem::forget(res);
    core::mem::forget(r);
    core::mem::forget(b);
}
