//! Layer L0: primitives. One generic body per primitive; `WHICH` selects the property whose
//! assertions are active (one property per harness instance, so that a known finding of one
//! property never masks another one).
//!   C01 round trip: decode(encode(v)) == v, consumed == written, tail untouched
//!   C03 conformance: bytes == reference model (pilota -> spec direction)
//!   C04 size: *_len(v) == bytes written
#![allow(unused)]
use crate::common::*;
use crate::protos::*;
use crate::ref_thrift as rt;

pub const C01: u8 = 1;
pub const C03: u8 = 3;
pub const C04: u8 = 4;

use crate::chk;

/// Output buffer with capacity `cap`, len 0.
fn outbuf(cap: usize) -> BytesMut {
    BytesMut::with_capacity(cap)
}

/// Appends a 2-byte symbolic tail to the written bytes and freezes.
#[cfg(kani)]
fn with_tail(mut out: BytesMut) -> (Bytes, [u8; 2]) {
    let tail: [u8; 2] = kani::any();
    out.put_slice(&tail);
    (out.freeze(), tail)
}

#[cfg(kani)]
fn check_tail<P: Proto>(r: &mut P::R<'_>, tail: [u8; 2], active: bool) {
    chk!(active, P::remaining(r) == 2, "C01: reader consumed exactly the bytes written");
    let t0 = ok(r.read_byte());
    let t1 = ok(r.read_byte());
    chk!(active, t0 == tail[0] && t1 == tail[1], "C01: following bytes read as if fresh");
}

macro_rules! l0_fixed {
    ($fname:ident, $ty:ty, $write:ident, $read:ident, $len:ident, $refcall:expr) => {
        #[cfg(kani)]
        pub fn $fname<P: Proto, const WHICH: u8>() {
            let v: $ty = kani::any();
            let mut out = outbuf(32);
            let n;
            {
                let mut w = P::writer(&mut out);
                n = w.$len(v);
                ok(w.$write(v));
                P::finish(w);
            }
            chk!(WHICH == C04, out.len() == n, "C04: reported length equals bytes written");
            let mut o = rt::Out::<32>::new();
            #[allow(clippy::redundant_closure_call)]
            ($refcall)(&mut o, v, P::WIRE);
            chk!(WHICH == C03, o.eq_slice(&out[..]), "C03: bytes equal the reference encoding");
            let wrote = out.len();
            let (mut b, tail) = with_tail(out);
            let mut r = P::reader(&mut b);
            let got = ok(r.$read());
            chk!(WHICH == C01, got == v, "C01: value read back equals value written");
            check_tail::<P>(&mut r, tail, WHICH == C01);
            kani::cover!(true, "reached end");
            core::mem::forget(r);
            core::mem::forget(b);
        }
    };
}

l0_fixed!(l0_i8, i8, write_i8, read_i8, i8_len, |o: &mut rt::Out<32>, v: i8, _w: Wire| o
    .put(v as u8));
l0_fixed!(l0_byte, u8, write_byte, read_byte, byte_len, |o: &mut rt::Out<32>, v: u8, _w: Wire| o
    .put(v));
l0_fixed!(l0_i16, i16, write_i16, read_i16, i16_len, |o: &mut rt::Out<32>, v: i16, w: Wire| {
    match w {
        Wire::Binary => rt::bin_i16(o, v, false),
        Wire::BinaryLe => rt::bin_i16(o, v, true),
        Wire::Compact => rt::cmp_i16(o, v),
    }
});
l0_fixed!(l0_i32, i32, write_i32, read_i32, i32_len, |o: &mut rt::Out<32>, v: i32, w: Wire| {
    match w {
        Wire::Binary => rt::bin_i32(o, v, false),
        Wire::BinaryLe => rt::bin_i32(o, v, true),
        Wire::Compact => rt::cmp_i32(o, v),
    }
});
l0_fixed!(l0_i64, i64, write_i64, read_i64, i64_len, |o: &mut rt::Out<32>, v: i64, w: Wire| {
    match w {
        Wire::Binary => rt::bin_i64(o, v, false),
        Wire::BinaryLe => rt::bin_i64(o, v, true),
        Wire::Compact => rt::cmp_i64(o, v),
    }
});
l0_fixed!(l0_uuid, [u8; 16], write_uuid, read_uuid, uuid_len, |o: &mut rt::Out<32>,
                                                                v: [u8; 16],
                                                                _w: Wire| o
    .put_all(&v));

/// bool as a bare value (list element / map value position): binary 1/0; compact 1/2.
#[cfg(kani)]
pub fn l0_bool<P: Proto, const WHICH: u8>() {
    let v: bool = kani::any();
    let mut out = outbuf(8);
    let n;
    {
        let mut w = P::writer(&mut out);
        n = w.bool_len(v);
        ok(w.write_bool(v));
        P::finish(w);
    }
    chk!(WHICH == C04, out.len() == n, "C04: reported length equals bytes written");
    let expect = match P::WIRE {
        Wire::Compact => {
            // spec: element bools are one byte; 1 = true; false is 0 in the text and 2 in
            // the reference implementations - both are accepted from the writer
            out.len() == 1 && if v { out[0] == 1 } else { out[0] == 2 || out[0] == 0 }
        }
        _ => out.len() == 1 && out[0] == (v as u8),
    };
    chk!(WHICH == C03, expect, "C03: bytes equal the reference encoding");
    let (mut b, tail) = with_tail(out);
    let mut r = P::reader(&mut b);
    let got = ok(r.read_bool());
    chk!(WHICH == C01, got == v, "C01: value read back equals value written");
    check_tail::<P>(&mut r, tail, WHICH == C01);
    kani::cover!(true, "reached end");
    core::mem::forget(r);
    core::mem::forget(b);
}

/// double: compared by bit pattern so that NaN payloads count.
#[cfg(kani)]
pub fn l0_double<P: Proto, const WHICH: u8>() {
    let bits: u64 = kani::any();
    let v = f64::from_bits(bits);
    let mut out = outbuf(16);
    let n;
    {
        let mut w = P::writer(&mut out);
        n = w.double_len(v);
        ok(w.write_double(v));
        P::finish(w);
    }
    chk!(WHICH == C04, out.len() == n, "C04: reported length equals bytes written");
    let mut o = rt::Out::<16>::new();
    match P::WIRE {
        Wire::Binary => rt::bin_double(&mut o, bits, false),
        Wire::BinaryLe => rt::bin_double(&mut o, bits, true),
        Wire::Compact => rt::cmp_double(&mut o, bits),
    }
    chk!(WHICH == C03, o.eq_slice(&out[..]), "C03: bytes equal the reference encoding");
    let (mut b, tail) = with_tail(out);
    let mut r = P::reader(&mut b);
    let got = ok(r.read_double());
    chk!(WHICH == C01, got.to_bits() == bits, "C01: value read back equals value written");
    check_tail::<P>(&mut r, tail, WHICH == C01);
    kani::cover!(true, "reached end");
    core::mem::forget(r);
    core::mem::forget(b);
}

/// Which length-prefixed API pair is exercised.
pub const S_STRING: u8 = 0; // write_string / read_string
pub const S_FASTSTR: u8 = 1; // write_faststr / read_faststr
pub const S_BYTES: u8 = 2; // write_bytes / read_bytes
pub const S_BYTES_VEC: u8 = 3; // write_bytes_vec / read_bytes_vec

/// Length-prefixed payload of exactly LEN bytes (content symbolic, ASCII for string APIs).
#[cfg(kani)]
pub fn l0_blob<P: Proto, const WHICH: u8, const API: u8, const LEN: usize>() {
    let payload: [u8; LEN] = kani::any();
    if API == S_STRING || API == S_FASTSTR {
        let mut i = 0;
        while i < LEN {
            kani::assume(payload[i] < 0x80);
            i += 1;
        }
    }
    let leaked: &'static [u8; LEN] = Box::leak(Box::new(payload));
    let s: &'static str = unsafe { core::str::from_utf8_unchecked(&leaked[..]) };
    let mut out = outbuf(16);
    let n;
    {
        let mut w = P::writer(&mut out);
        match API {
            S_STRING => {
                n = w.string_len(s);
                ok(w.write_string(s));
            }
            S_FASTSTR => {
                let fs = FastStr::from_static_str(s);
                n = w.faststr_len(&fs);
                ok(w.write_faststr(fs));
            }
            S_BYTES => {
                n = w.bytes_len(&leaked[..]);
                ok(w.write_bytes(Bytes::from_static(&leaked[..])));
            }
            _ => {
                n = w.bytes_vec_len(&leaked[..]);
                ok(w.write_bytes_vec(&leaked[..]));
            }
        }
        P::finish(w);
    }
    chk!(WHICH == C04, out.len() == n, "C04: reported length equals bytes written");
    let mut o = rt::Out::<16>::new();
    match P::WIRE {
        Wire::Binary => rt::bin_binary(&mut o, &leaked[..], false),
        Wire::BinaryLe => rt::bin_binary(&mut o, &leaked[..], true),
        Wire::Compact => rt::cmp_binary(&mut o, &leaked[..]),
    }
    chk!(WHICH == C03, o.eq_slice(&out[..]), "C03: bytes equal the reference encoding");
    let (mut b, tail) = with_tail(out);
    let mut r = P::reader(&mut b);
    let same = match API {
        S_STRING => {
            let g = ok(r.read_string());
            let e = g.as_bytes() == &leaked[..];
            core::mem::forget(g);
            e
        }
        S_FASTSTR => {
            let g = ok(r.read_faststr());
            let e = g.as_bytes() == &leaked[..];
            core::mem::forget(g);
            e
        }
        S_BYTES => {
            let g = ok(r.read_bytes());
            let e = &g[..] == &leaked[..];
            core::mem::forget(g);
            e
        }
        _ => {
            let g = ok(r.read_bytes_vec());
            let e = &g[..] == &leaked[..];
            core::mem::forget(g);
            e
        }
    };
    chk!(WHICH == C01, same, "C01: value read back equals value written");
    check_tail::<P>(&mut r, tail, WHICH == C01);
    kani::cover!(true, "reached end");
    core::mem::forget(r);
    core::mem::forget(b);
}
