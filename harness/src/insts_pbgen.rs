//! Instances over generated protobuf messages (C05/C06/C18).
#![allow(unused)]
use crate::insts_pb::pproof;
use crate::pb::{C05, C06};
use crate::pbgen::{self, *};
use paste::paste;
pproof!{ #[kani::unwind(12)] fn c05_q_gen_small_w() { pbgen::small_w::<{C05}>() } }
pproof!{ #[kani::unwind(12)] fn c06_q_gen_small_w() { pbgen::small_w::<{C06}>() } }
macro_rules! sr {
    ($tier:ident, $order:expr, $ls:expr) => { paste! {
        pproof!{ #[kani::unwind(12)] fn [<c05_ $tier _gen_small_r_order $order _len $ls>]() { pbgen::small_r::<$order, $ls>() } }
        pproof!{ #[kani::unwind(12)] fn [<c06_ $tier _gen_small_r_order $order _len $ls>]() { pbgen::small_r::<$order, $ls>() } }
    }};
}
sr!(q, 0, 1);
sr!(t, 0, 2);
sr!(t, 0, 5);
sr!(q, 1, 1);
macro_rules! cc {
    ($tier:ident, $f:ident, $uk:ident) => { paste! {
        pproof!{ #[kani::unwind(12)] fn [<c18_ $tier _gen_ $f _ $uk:lower>]() { pbgen::$f::<{pbgen::$uk}>() } }
    }};
}
cc!(q, small_concat, U_NONE);
cc!(q, small_concat, U_VARINT);
cc!(t, small_concat, U_I64);
cc!(q, small_concat, U_LEN);
cc!(t, small_concat, U_I32);
cc!(q, small_concat, U_GROUP);
cc!(q, small_concat, U_GROUP_NESTED);
cc!(t, nested_concat, U_GROUP_NESTED);
cc!(q, rep_concat, U_NONE);
cc!(t, rep_concat, U_LEN);
cc!(t, rep_concat, U_GROUP);
cc!(q, nested_concat, U_NONE);
cc!(t, nested_concat, U_VARINT);
cc!(t, nested_concat, U_GROUP);
pproof!{ #[kani::unwind(12)] fn c18_x_map_dup_key() { crate::pb::pb_btree_map_dup_key::<false>() } }
