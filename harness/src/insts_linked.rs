//! LinkedBytes harness instances (C01).
#![allow(unused)]
use crate::linked;
use crate::protos::*;
use crate::skip::*;
use paste::paste;
macro_rules! lk {
    ($tier:ident, $shape:ident, $lp:ty, $p:ty, $pn:ident, $unw:expr) => { paste! {
        crate::proof!{ #[kani::unwind($unw)] fn [<c01_ $tier _linked_ $shape:lower _ $pn>]() { linked::linked_vs_contiguous::<$lp, $p, {$shape}>() } }
    }};
}
macro_rules! lk_all {
    ($tb:ident, $tc:ident, $shape:ident, $unw_bin:expr, $unw_cmp:expr) => {
        lk!($tb, $shape, LBin, PBin, bin, $unw_bin);
        lk!(t, $shape, LLe, PLe, le, $unw_bin);
        lk!($tb, $shape, LUnchecked, PUnchecked, unchecked, $unw_bin);
        lk!($tc, $shape, LCompact, PCompact, compact, $unw_cmp);
    };
}
lk_all!(q, q, V_I32, 7, 7);
lk_all!(t, q, V_BOOL, 7, 7);
lk_all!(t, t, V_I64, 7, 12);
lk_all!(t, t, V_DOUBLE, 7, 7);
lk_all!(q, t, V_BINARY2, 7, 7);
lk_all!(t, t, V_UUID, 7, 7);
lk_all!(t, t, V_LIST_I32_2, 7, 7);
lk_all!(t, t, V_MAP_I8_BIN, 7, 7);
lk_all!(q, t, V_STRUCT_NEST, 7, 7);
lk_all!(t, t, V_STRUCT_FLAT, 7, 7);
crate::proof!{ #[kani::unwind(7)] fn c01_q_linked_zero_copy_bin() { linked::linked_zero_copy::<LBin>() } }
crate::proof!{ #[kani::unwind(7)] fn c01_t_linked_zero_copy_le() { linked::linked_zero_copy::<LLe>() } }
crate::proof!{ #[kani::unwind(7)] fn c01_t_linked_zero_copy_compact() { linked::linked_zero_copy::<LCompact>() } }
crate::proof!{ #[kani::unwind(7)] fn c01_t_linked_zero_copy_unchecked() { linked::linked_zero_copy::<LUnchecked>() } }
