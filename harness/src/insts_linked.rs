//! LinkedBytes harness instances (C01).
#![allow(unused)]
use crate::linked;
use crate::protos::*;
use crate::skip::*;
use paste::paste;
macro_rules! lk {
    ($tier:ident, $shape:ident, $lp:ty, $p:ty, $pn:ident, $unw:expr) => { paste! {
        crate::proof!{ #[kani::unwind($unw)] fn [<c01_ $tier _linked_ $shape:lower _ $pn>]() { linked::linked_vs_contiguous::<$lp, $p, {$shape}>() } }
    }};
}
macro_rules! lk_all {
    ($tb:ident, $tc:ident, $shape:ident, $unw_bin:expr, $unw_cmp:expr) => {
        lk!($tb, $shape, LBin, PBin, bin, $unw_bin);
        lk!(t, $shape, LLe, PLe, le, $unw_bin);
        lk!($tb, $shape, LUnchecked, PUnchecked, unchecked, $unw_bin);
        lk!($tc, $shape, LCompact, PCompact, compact, $unw_cmp);
    };
}
lk_all!(q, t, V_I32, 7, 7);
lk_all!(t, t, V_BOOL, 7, 7);
lk_all!(t, t, V_I64, 7, 12);
lk_all!(t, t, V_DOUBLE, 7, 7);
lk_all!(q, t, V_BINARY2, 7, 7);
lk_all!(t, t, V_UUID, 7, 7);
lk_all!(t, t, V_LIST_I32_2, 7, 7);
lk_all!(t, t, V_MAP_I8_BIN, 7, 7);
lk_all!(q, t, V_STRUCT_NEST, 7, 7);
lk_all!(t, t, V_STRUCT_FLAT, 7, 7);
crate::proof!{ #[kani::unwind(7)] fn c01_q_linked_zero_copy_bin() { linked::linked_zero_copy::<LBin>() } }
crate::proof!{ #[kani::unwind(7)] fn c01_t_linked_zero_copy_le() { linked::linked_zero_copy::<LLe>() } }
crate::proof!{ #[kani::unwind(7)] fn c01_t_linked_zero_copy_compact() { linked::linked_zero_copy::<LCompact>() } }
crate::proof!{ #[kani::unwind(7)] fn c01_t_linked_zero_copy_unchecked() { linked::linked_zero_copy::<LUnchecked>() } }

// concrete id patterns (prev, id, after): ascending short deltas; long form then back then short;
// short then long then short; negative, zero, delta 16
macro_rules! lkc {
    ($tier:ident, $n:ident, $shape:ident, $prev:expr, $id:expr, $after:expr) => { paste! {
        crate::proof!{ #[kani::unwind(12)] fn [<c01_ $tier _linkedids_ $n _ $shape:lower _compact>]() { linked::linked_vs_contiguous_ids::<LCompact, PCompact, {$shape}, $prev, $id, $after>() } }
    }};
}
lkc!(q, ascending, V_I32, 1, 2, 3);
lkc!(q, jump_back_short, V_BOOL, 20, 3, 5);
lkc!(q, short_long_short, V_I64, 5, 40, 41);
lkc!(q, negative_zero_16, V_BINARY2, -3, 0, 16);
lkc!(t, jump_back_short, V_STRUCT_NEST, 30, 2, 31);
crate::proof!{ #[kani::unwind(7)] fn c01_q_linked_zero_copy_without_len_unchecked() { linked::linked_zero_copy_without_len::<LUnchecked>() } }
crate::proof!{ #[kani::unwind(7)] fn c01_t_linked_zero_copy_without_len_bin() { linked::linked_zero_copy_without_len::<LBin>() } }
crate::proof!{ #[kani::unwind(7)] fn c01_t_linked_zero_copy_without_len_compact() { linked::linked_zero_copy_without_len::<LCompact>() } }
crate::proof!{ #[kani::unwind(7)] fn c11_q_linked_zero_copy_without_len_unchecked() { linked::linked_zero_copy_without_len::<LUnchecked>() } }
