//! C02/C04 for the larger emitted types, DECOMPOSED (the monolithic encode->decode harness did
//! not reach a verdict for them): with the schema of corpus/t_basic.thrift hand-transcribed into
//! the reference encoder,
//!   (w) emitted encode(v) == reference encoding of v, and size(v) == its length   [C02, C04]
//!   (r) emitted decode(reference encoding of v) == v, consuming every byte        [C02]
//! for all leaf values; presence and container sizes are concrete per instance.
#![allow(unused)]
use crate::c02::{any_faststr, C02, C04};
use crate::chk;
use crate::common::*;
use crate::gen_thrift::tb;
use crate::protos::*;
use crate::ref_thrift as rt;

pub const D_W: u8 = 0;
pub const D_R: u8 = 1;

#[cfg(kani)]
fn check_w<M: Message, const N: usize>(v: &M, e: &rt::Out<N>, which: u8) {
    let n;
    {
        let mut tw = BytesMut::with_capacity(N);
        let mut t = PBin::writer(&mut tw);
        n = v.size(&mut t);
        core::mem::forget(t);
        core::mem::forget(tw);
    }
    let mut out = BytesMut::with_capacity(N);
    {
        let mut w = PBin::writer(&mut out);
        ok(v.encode(&mut w));
        PBin::finish(w);
    }
    chk!(which == C04, out.len() == n, "C04: size() equals the bytes encode() writes (generated type)");
    chk!(which == C02, e.eq_bytes(&out[..]), "C02: emitted encode writes the reference encoding of the value");
    core::mem::forget(out);
}

/// Outer{1: Inner{1: x, 2: s(1 byte)}, 2: after, 16: flag}
#[cfg(kani)]
pub fn outer<const DIR: u8, const WHICH: u8>() {
    let x: i32 = kani::any();
    let after: i32 = kani::any();
    let flag: bool = kani::any();
    let s = any_faststr::<1>();
    let sb = s.as_bytes()[0];
    let mut e = rt::Out::<48>::new();
    rt::bin_field(&mut e, rt::bt::STRUCT, 1, false);
    rt::bin_field(&mut e, rt::bt::I32, 1, false);
    rt::bin_i32(&mut e, x, false);
    rt::bin_field(&mut e, rt::bt::BINARY, 2, false);
    rt::bin_binary(&mut e, &[sb], false);
    e.put(0);
    rt::bin_field(&mut e, rt::bt::I32, 2, false);
    rt::bin_i32(&mut e, after, false);
    rt::bin_field(&mut e, rt::bt::BOOL, 16, false);
    e.put(flag as u8);
    e.put(0);
    if DIR == D_W {
        let v = tb::Outer { inner: Some(tb::Inner { x, s: Some(s) }), after: Some(after), flag: Some(flag) };
        check_w(&v, &e, WHICH);
        core::mem::forget(v);
    } else {
        let n = e.n;
        let mut b = static_input(e.b);
        b.truncate(n);
        let mut r = PBin::reader(&mut b);
        let got: tb::Outer = ok(Message::decode(&mut r));
        let inner_ok = match &got.inner {
            Some(i) => i.x == x && i.s.as_deref().map(|t| t.as_bytes()[0]) == Some(sb),
            None => false,
        };
        kani::assert(inner_ok && got.after == Some(after) && got.flag == Some(flag), "C02: emitted decode recovers the value from its reference encoding");
        kani::assert(PBin::remaining(&mut r) == 0, "C02: decode consumes exactly the encoded bytes");
        core::mem::forget(got);
        core::mem::forget(r);
        core::mem::forget(b);
    }
    kani::cover!(true, "reached end");
}

/// Scalars with every numeric field present
#[cfg(kani)]
pub fn scalars_num<const DIR: u8, const WHICH: u8>() {
    let b0: bool = kani::any();
    let i8v: i8 = kani::any();
    let i16v: i16 = kani::any();
    let i32v: i32 = kani::any();
    let i64v: i64 = kani::any();
    let dbits: u64 = kani::any();
    kani::assume(!f64::from_bits(dbits).is_nan());
    let color: i32 = kani::any();
    let mut e = rt::Out::<64>::new();
    rt::bin_field(&mut e, rt::bt::BOOL, 1, false);
    e.put(b0 as u8);
    rt::bin_field(&mut e, rt::bt::I8, 2, false);
    e.put(i8v as u8);
    rt::bin_field(&mut e, rt::bt::I16, 3, false);
    rt::bin_i16(&mut e, i16v, false);
    rt::bin_field(&mut e, rt::bt::I32, 4, false);
    rt::bin_i32(&mut e, i32v, false);
    rt::bin_field(&mut e, rt::bt::I64, 5, false);
    rt::bin_i64(&mut e, i64v, false);
    rt::bin_field(&mut e, rt::bt::DOUBLE, 6, false);
    rt::bin_double(&mut e, dbits, false);
    rt::bin_field(&mut e, rt::bt::I32, 10, false);
    rt::bin_i32(&mut e, color, false);
    e.put(0);
    if DIR == D_W {
        let v = tb::Scalars { b: Some(b0), i8v: Some(i8v), i16v: Some(i16v), i32v, i64v: Some(i64v), d: Some(f64::from_bits(dbits)), s: None, bin: None, oi: None, color: Some(tb::Color::from(color)) };
        check_w(&v, &e, WHICH);
        core::mem::forget(v);
    } else {
        let n = e.n;
        let mut b = static_input(e.b);
        b.truncate(n);
        let mut r = PBin::reader(&mut b);
        let got: tb::Scalars = ok(Message::decode(&mut r));
        kani::assert(got.b == Some(b0) && got.i8v == Some(i8v) && got.i16v == Some(i16v) && got.i32v == i32v && got.i64v == Some(i64v), "C02: emitted decode recovers the integer fields");
        kani::assert(got.d.map(|d| d.to_bits()) == Some(dbits) && got.color.map(|c| c.inner()) == Some(color), "C02: emitted decode recovers double and enum fields");
        kani::assert(got.s.is_none() && got.bin.is_none() && got.oi.is_none(), "C02: absent optionals stay empty");
        kani::assert(PBin::remaining(&mut r) == 0, "C02: decode consumes exactly the encoded bytes");
        core::mem::forget(got);
        core::mem::forget(r);
        core::mem::forget(b);
    }
    kani::cover!(true, "reached end");
}

/// Lists{1: list<i32>[a,b], 2: list<string>["c"], 3: list<Inner>[{x}]}
#[cfg(kani)]
pub fn lists<const DIR: u8, const WHICH: u8>() {
    let a: i32 = kani::any();
    let b2: i32 = kani::any();
    let x: i32 = kani::any();
    let s = any_faststr::<1>();
    let sb = s.as_bytes()[0];
    let mut e = rt::Out::<64>::new();
    rt::bin_field(&mut e, rt::bt::LIST, 1, false);
    rt::bin_list(&mut e, rt::bt::I32, 2, false);
    rt::bin_i32(&mut e, a, false);
    rt::bin_i32(&mut e, b2, false);
    rt::bin_field(&mut e, rt::bt::LIST, 2, false);
    rt::bin_list(&mut e, rt::bt::BINARY, 1, false);
    rt::bin_binary(&mut e, &[sb], false);
    rt::bin_field(&mut e, rt::bt::LIST, 3, false);
    rt::bin_list(&mut e, rt::bt::STRUCT, 1, false);
    rt::bin_field(&mut e, rt::bt::I32, 1, false);
    rt::bin_i32(&mut e, x, false);
    e.put(0);
    e.put(0);
    if DIR == D_W {
        let mut li = Vec::with_capacity(2);
        li.push(a);
        li.push(b2);
        let mut ls = Vec::with_capacity(1);
        ls.push(s);
        let mut lin = Vec::with_capacity(1);
        lin.push(tb::Inner { x, s: None });
        let v = tb::Lists { li: Some(li), ls: Some(ls), lin: Some(lin) };
        check_w(&v, &e, WHICH);
        core::mem::forget(v);
    } else {
        let n = e.n;
        let mut b = static_input(e.b);
        b.truncate(n);
        let mut r = PBin::reader(&mut b);
        let got: tb::Lists = ok(Message::decode(&mut r));
        let li_ok = match &got.li { Some(v) => v.len() == 2 && v[0] == a && v[1] == b2, None => false };
        let ls_ok = match &got.ls { Some(v) => v.len() == 1 && v[0].as_bytes()[0] == sb && v[0].len() == 1, None => false };
        let lin_ok = match &got.lin { Some(v) => v.len() == 1 && v[0].x == x && v[0].s.is_none(), None => false };
        kani::assert(li_ok && ls_ok && lin_ok, "C02: emitted decode recovers the lists from their reference encoding");
        kani::assert(PBin::remaining(&mut r) == 0, "C02: decode consumes exactly the encoded bytes");
        core::mem::forget(got);
        core::mem::forget(r);
        core::mem::forget(b);
    }
    kani::cover!(true, "reached end");
}

/// Maps{1: map<i32,string>{k: "v"}, 2: set<i32>{e}}  (btree containers)
#[cfg(kani)]
pub fn maps<const DIR: u8, const WHICH: u8>() {
    let k: i32 = kani::any();
    let el: i32 = kani::any();
    let s = any_faststr::<1>();
    let sb = s.as_bytes()[0];
    let mut e = rt::Out::<48>::new();
    rt::bin_field(&mut e, rt::bt::MAP, 1, false);
    rt::bin_map(&mut e, rt::bt::I32, rt::bt::BINARY, 1, false);
    rt::bin_i32(&mut e, k, false);
    rt::bin_binary(&mut e, &[sb], false);
    rt::bin_field(&mut e, rt::bt::SET, 2, false);
    rt::bin_list(&mut e, rt::bt::I32, 1, false);
    rt::bin_i32(&mut e, el, false);
    e.put(0);
    if DIR == D_W {
        let mut m = std::collections::BTreeMap::new();
        m.insert(k, s);
        let mut st = std::collections::BTreeSet::new();
        st.insert(el);
        let v = tb::Maps { m: Some(m), st: Some(st) };
        check_w(&v, &e, WHICH);
        core::mem::forget(v);
    } else {
        let n = e.n;
        let mut b = static_input(e.b);
        b.truncate(n);
        let mut r = PBin::reader(&mut b);
        let got: tb::Maps = ok(Message::decode(&mut r));
        let m_ok = match &got.m { Some(m) => m.len() == 1 && m.get(&k).map(|t| t.len() == 1 && t.as_bytes()[0] == sb) == Some(true), None => false };
        let s_ok = match &got.st { Some(t) => t.len() == 1 && t.contains(&el), None => false };
        kani::assert(m_ok && s_ok, "C02: emitted decode recovers map and set from their reference encoding");
        kani::assert(PBin::remaining(&mut r) == 0, "C02: decode consumes exactly the encoded bytes");
        core::mem::forget(got);
        core::mem::forget(r);
        core::mem::forget(b);
    }
    kani::cover!(true, "reached end");
}

/// Scalars with the string/binary/optional fields present
#[cfg(kani)]
pub fn scalars_rest<const DIR: u8, const WHICH: u8>() {
    let i32v: i32 = kani::any();
    let oi: i32 = kani::any();
    let s = any_faststr::<1>();
    let sb = s.as_bytes()[0];
    let p: [u8; 2] = kani::any();
    let l: &'static [u8; 2] = Box::leak(Box::new(p));
    let mut e = rt::Out::<48>::new();
    rt::bin_field(&mut e, rt::bt::I32, 4, false);
    rt::bin_i32(&mut e, i32v, false);
    rt::bin_field(&mut e, rt::bt::BINARY, 7, false);
    rt::bin_binary(&mut e, &[sb], false);
    rt::bin_field(&mut e, rt::bt::BINARY, 8, false);
    rt::bin_binary(&mut e, &l[..], false);
    rt::bin_field(&mut e, rt::bt::I32, 9, false);
    rt::bin_i32(&mut e, oi, false);
    e.put(0);
    if DIR == D_W {
        let v = tb::Scalars { b: None, i8v: None, i16v: None, i32v, i64v: None, d: None, s: Some(s), bin: Some(Bytes::from_static(&l[..])), oi: Some(oi), color: None };
        check_w(&v, &e, WHICH);
        core::mem::forget(v);
    } else {
        let n = e.n;
        let mut b = static_input(e.b);
        b.truncate(n);
        let mut r = PBin::reader(&mut b);
        let got: tb::Scalars = ok(Message::decode(&mut r));
        kani::assert(got.i32v == i32v && got.oi == Some(oi), "C02: emitted decode recovers the integer fields");
        let s_ok = match &got.s { Some(t) => t.len() == 1 && t.as_bytes()[0] == sb, None => false };
        let b_ok = match &got.bin { Some(t) => t.len() == 2 && t[0] == p[0] && t[1] == p[1], None => false };
        kani::assert(s_ok && b_ok, "C02: emitted decode recovers string and binary fields");
        kani::assert(got.b.is_none() && got.d.is_none() && got.color.is_none(), "C02: absent optionals stay empty");
        kani::assert(PBin::remaining(&mut r) == 0, "C02: decode consumes exactly the encoded bytes");
        core::mem::forget(got);
        core::mem::forget(r);
        core::mem::forget(b);
    }
    kani::cover!(true, "reached end");
}

/// union U: variant B (string) and variant C (struct)
#[cfg(kani)]
pub fn union_bc<const DIR: u8, const WHICH: u8, const VARIANT: u8>() {
    let x: i32 = kani::any();
    let s = any_faststr::<2>();
    let sb = [s.as_bytes()[0], s.as_bytes()[1]];
    let mut e = rt::Out::<32>::new();
    if VARIANT == 0 {
        rt::bin_field(&mut e, rt::bt::BINARY, 2, false);
        rt::bin_binary(&mut e, &sb, false);
    } else {
        rt::bin_field(&mut e, rt::bt::STRUCT, 3, false);
        rt::bin_field(&mut e, rt::bt::I32, 1, false);
        rt::bin_i32(&mut e, x, false);
        e.put(0);
    }
    e.put(0);
    if DIR == D_W {
        let v = if VARIANT == 0 { tb::U::B(s) } else { tb::U::C(tb::Inner { x, s: None }) };
        check_w(&v, &e, WHICH);
        core::mem::forget(v);
    } else {
        let n = e.n;
        let mut b = static_input(e.b);
        b.truncate(n);
        let mut r = PBin::reader(&mut b);
        let got: tb::U = ok(Message::decode(&mut r));
        let good = match &got {
            tb::U::B(t) => VARIANT == 0 && t.len() == 2 && t.as_bytes()[0] == sb[0] && t.as_bytes()[1] == sb[1],
            tb::U::C(i) => VARIANT == 1 && i.x == x && i.s.is_none(),
            _ => false,
        };
        kani::assert(good, "C02: emitted union decode recovers the variant from its reference encoding");
        kani::assert(PBin::remaining(&mut r) == 0, "C02: decode consumes exactly the encoded bytes");
        core::mem::forget(got);
        core::mem::forget(r);
        core::mem::forget(b);
    }
    kani::cover!(true, "reached end");
}

/// Inner over the COMPACT protocol (no bool fields: emitted decode + compact + bool is a
/// recorded observation, DESIGN.md §6). (w): all x; (r): fields sent as [s, x] so that the
/// symbolic zigzag varint of x (LX bytes) comes last.
#[cfg(kani)]
pub fn inner_compact<const DIR: u8, const WHICH: u8, const LX: usize>() {
    let s = any_faststr::<1>();
    let sb = s.as_bytes()[0];
    if DIR == D_W {
        let x: i32 = kani::any();
        let mut e = rt::Out::<32>::new();
        rt::cmp_field(&mut e, 0, 1, rt::ct::I32, false);
        rt::cmp_i32(&mut e, x);
        rt::cmp_field(&mut e, 1, 2, rt::ct::BINARY, false);
        rt::cmp_binary(&mut e, &[sb]);
        e.put(0);
        let v = tb::Inner { x, s: Some(s) };
        let n;
        {
            let mut tw = BytesMut::with_capacity(32);
            let mut t = PCompact::writer(&mut tw);
            n = v.size(&mut t);
            core::mem::forget(t);
            core::mem::forget(tw);
        }
        let mut out = BytesMut::with_capacity(32);
        {
            let mut w = PCompact::writer(&mut out);
            ok(v.encode(&mut w));
            PCompact::finish(w);
        }
        chk!(WHICH == C04, out.len() == n, "C04: size() equals the bytes encode() writes (generated type, compact)");
        chk!(WHICH == C02, e.eq_bytes(&out[..]), "C02: emitted encode writes the reference compact encoding");
        core::mem::forget(v);
        core::mem::forget(out);
    } else {
        let (vx, ux) = crate::l1::sym_zz_varint::<LX>();
        let mut e = rt::Out::<32>::new();
        rt::cmp_field(&mut e, 0, 2, rt::ct::BINARY, false);
        rt::cmp_binary(&mut e, &[sb]);
        rt::cmp_field(&mut e, 2, 1, rt::ct::I32, false); // id goes down: long form
        e.put_all(&vx);
        e.put(0);
        let n = e.n;
        let mut b = static_input(e.b);
        b.truncate(n);
        let mut r = PCompact::reader(&mut b);
        let got: tb::Inner = ok(Message::decode(&mut r));
        let want = rt::unzigzag64(ux) as i32;
        let s_ok = match &got.s { Some(t) => t.len() == 1 && t.as_bytes()[0] == sb, None => false };
        kani::assert(got.x == want && s_ok, "C02: emitted decode recovers the value from its reference compact encoding");
        kani::assert(PCompact::remaining(&mut r) == 0, "C02: decode consumes exactly the encoded bytes");
        core::mem::forget(got);
        core::mem::forget(r);
        core::mem::forget(b);
    }
    kani::cover!(true, "reached end");
}
