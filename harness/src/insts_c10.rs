//! C10 harness instances.
#![allow(unused)]
use crate::insts_pb::pproof;
use crate::pbtotal::{self, *};
use paste::paste;
pproof!{ #[kani::unwind(12)] fn c10_q_varint_arbitrary_11() { pbtotal::varint_arbitrary::<11>() } }
pproof!{ #[kani::unwind(12)] fn c10_t_varint_arbitrary_13() { pbtotal::varint_arbitrary::<13>() } }
pproof!{ #[kani::unwind(12)] fn c10_t_varint_arbitrary_3() { pbtotal::varint_arbitrary::<3>() } }
macro_rules! da {
    ($tier:ident, $api:ident, $n:expr) => { paste! {
        pproof!{ #[kani::unwind(12)] fn [<c10_ $tier _arbitrary_ $api:lower _ $n>]() { pbtotal::decoder_arbitrary::<{pbtotal::$api}, $n>() } }
    }};
}
da!(q, D_KEY, 6);
da!(q, D_INT32, 11);
da!(t, D_INT32_WRONG_WT, 4);
da!(t, D_SINT64, 11);
da!(t, D_BOOL, 11);
da!(q, D_FIXED32, 5);
da!(t, D_DOUBLE, 9);
da!(x, D_BYTES, 4);
da!(x, D_VEC, 4);
da!(x, D_STRING, 4);
da!(x, D_FASTSTR, 4);
da!(t, D_LEN_DELIM, 11);
da!(q, D_SKIP_VARINT, 11);
da!(t, D_SKIP_I64, 9);
da!(q, D_SKIP_LEN, 6);
da!(t, D_SKIP_I32, 5);
da!(t, D_SKIP_EGROUP, 2);
da!(q, D_PACKED_FIXED32, 10);
#[cfg(pilota_verif)]
mod b {
    use super::*;
    pproof!{ #[kani::unwind(12)] fn c10_q_budget_message() { pbtotal::budget_one_level::<{pbtotal::B_MESSAGE}>() } }
    pproof!{ #[kani::unwind(12)] fn c10_q_budget_group() { pbtotal::budget_one_level::<{pbtotal::B_GROUP}>() } }
    pproof!{ #[kani::unwind(12)] fn c10_q_budget_map() { pbtotal::budget_one_level::<{pbtotal::B_MAP}>() } }
    pproof!{ #[kani::unwind(4)] fn c10_x_budget_skip_group() { pbtotal::budget_one_level::<{pbtotal::B_SKIP_GROUP}>() } }
}
