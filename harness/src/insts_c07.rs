//! C07 harness instances.
#![allow(unused)]
use crate::protos::*;
use crate::skip::{self, *};
use paste::paste;

macro_rules! sw {
    ($tier:ident, $shape:ident, $p:ty, $pn:ident, $unw:expr) => { paste! {
        crate::proof!{ #[kani::unwind($unw)] fn [<c07_ $tier _written_ $shape:lower _ $pn>]() { skip::skip_written::<$p, {skip::$shape}>() } }
    }};
}
macro_rules! sw_all {
    ($tb:ident, $tu:ident, $tc:ident, $shape:ident, $unw_bin:expr, $unw_cmp:expr) => {
        sw!($tb, $shape, PBin, bin, $unw_bin);
        sw!(t, $shape, PLe, le, $unw_bin);
        sw!($tu, $shape, PUnchecked, unchecked, $unw_bin);
        sw!($tc, $shape, PCompact, compact, $unw_cmp);
    };
}
sw_all!(t, t, t, V_BOOL, 4, 5);
sw_all!(t, t, t, V_I8, 4, 5);
sw_all!(t, t, q, V_I16, 4, 5);
sw_all!(q, q, q, V_I32, 5, 7);
sw_all!(t, t, q, V_I64, 9, 12);
sw_all!(q, q, q, V_DOUBLE, 9, 9);
sw_all!(q, q, t, V_UUID, 17, 17);
sw_all!(q, q, t, V_BINARY2, 5, 7);
sw_all!(t, t, t, V_BINARY0, 5, 7);
sw_all!(q, q, t, V_LIST_I32_2, 5, 7);
sw_all!(t, t, t, V_LIST_BOOL_2, 5, 7);
sw_all!(t, t, t, V_LIST_EMPTY, 5, 7);
sw_all!(q, q, t, V_LIST_BIN_1, 5, 7);
sw_all!(q, t, t, V_SET_I8_2, 5, 7);
sw_all!(q, t, t, V_MAP_I8_BIN, 5, 7);
sw_all!(t, t, t, V_MAP_EMPTY, 5, 7);
sw_all!(q, q, t, V_SET_EMPTY_BIN, 5, 7);
sw_all!(t, t, t, V_SET_EMPTY_STRUCT, 5, 7);
sw_all!(t, t, t, V_MAP_I16_I64, 9, 12);
sw_all!(q, q, t, V_STRUCT_FLAT, 5, 7);
sw_all!(q, t, t, V_STRUCT_NEST, 5, 7);
sw_all!(t, t, t, V_STRUCT_EMPTY, 5, 7);
sw_all!(t, t, t, V_LIST_STRUCT, 5, 7);

// (c) depth limit, recursive default skipper (binary, LE, compact)
macro_rules! sd {
    ($tier:ident, $p:ty, $pn:ident, $d:expr, $lim:expr, $unw:expr) => { paste! {
        crate::proof!{ #[kani::unwind($unw)] fn [<c07_ $tier _depth $d _limit $lim _ $pn>]() { skip::skip_depth::<$p, $d, $lim>() } }
    }};
}
// unwind bounds are as tight as the concrete input allows (struct field loop: fields + stop):
// CBMC's constant propagation does not see that a recursive call returned Err, so symex keeps
// unrolling the field loop up to the bound; the solver then proves the unwinding assertion.
sd!(q, PBin, bin, 0, 1, 3);
sd!(q, PBin, bin, 0, 2, 3);
sd!(t, PBin, bin, 1, 2, 3);
sd!(q, PBin, bin, 1, 3, 3);
sd!(t, PBin, bin, 2, 3, 3);
sd!(t, PBin, bin, 2, 4, 3);
sd!(t, PLe, le, 1, 2, 3);
sd!(t, PLe, le, 1, 3, 3);
sd!(t, PCompact, compact, 1, 2, 4);
sd!(t, PCompact, compact, 1, 3, 4);
// iterative unchecked skipper across its SmallVec inline capacity of 8
sd!(t, PUnchecked, unchecked, 1, 64, 8);
sd!(t, PUnchecked, unchecked, 7, 64, 12);
sd!(t, PUnchecked, unchecked, 8, 64, 12);
sd!(t, PUnchecked, unchecked, 9, 64, 12);

// (b) arbitrary bytes at depth 1
macro_rules! sa {
    ($tier:ident, $p:ty, $pn:ident, $ty:expr, $tyn:ident, $n:expr, $unw:expr) => { paste! {
        crate::proof!{ #[kani::unwind($unw)] fn [<c07_ $tier _arbitrary_ $tyn _ $n _ $pn>]() { skip::skip_arbitrary::<$p, $ty, $n>() } }
    }};
}
macro_rules! sa_types {
    ($tier:ident, $p:ty, $pn:ident, $n:expr, $unw:expr) => {
        sa!($tier, $p, $pn, 2, bool, $n, $unw);
        sa!($tier, $p, $pn, 6, i16, $n, $unw);
        sa!($tier, $p, $pn, 8, i32, $n, $unw);
        sa!($tier, $p, $pn, 10, i64, $n, $unw);
        sa!($tier, $p, $pn, 11, binary, $n, $unw);
        sa!($tier, $p, $pn, 16, uuid, $n, $unw);
        // containers: element/field type bytes are symbolic here (ThriftException drop glue
        // in map_err, DESIGN.md §2.3): thorough tier, registered only if calibration is conclusive
        sa!(t, $p, $pn, 12, struct, $n, $unw);
        sa!(t, $p, $pn, 13, map, $n, $unw);
        sa!(t, $p, $pn, 15, list, $n, $unw);
    };
}
sa_types!(q, PBin, bin, 6, 2);
sa_types!(t, PBin, bin, 3, 2);
sa_types!(t, PBin, bin, 10, 2);
sa_types!(t, PLe, le, 6, 2);
sa_types!(t, PBin, bin, 17, 2);
crate::proof!{ #[kani::unwind(5)] fn c07_q_void_bin() { skip::skip_void::<PBin>() } }
crate::proof!{ #[kani::unwind(5)] fn c07_t_void_compact() { skip::skip_void::<PCompact>() } }
crate::proof!{ #[kani::unwind(5)] fn c07_t_void_unchecked() { skip::skip_void::<PUnchecked>() } }
crate::proof!{ #[kani::unwind(3)] fn c07_q_struct_then_bool_true_compact() { skip::skip_struct_then_bool::<PCompact, true>() } }
crate::proof!{ #[kani::unwind(3)] fn c07_q_struct_then_bool_false_compact() { skip::skip_struct_then_bool::<PCompact, false>() } }
crate::proof!{ #[kani::unwind(3)] fn c07_t_struct_then_bool_true_bin() { skip::skip_struct_then_bool::<PBin, true>() } }
crate::proof!{ #[kani::unwind(4)] fn c07_q_depthmap_limit2_compact() { skip::skip_depth_map::<PCompact, 2>() } }
crate::proof!{ #[kani::unwind(4)] fn c07_q_depthmap_limit3_compact() { skip::skip_depth_map::<PCompact, 3>() } }
crate::proof!{ #[kani::unwind(4)] fn c07_t_depthmap_limit2_bin() { skip::skip_depth_map::<PBin, 2>() } }
crate::proof!{ #[kani::unwind(4)] fn c07_t_depthmap_limit3_bin() { skip::skip_depth_map::<PBin, 3>() } }

// (a') concrete-leaf container shapes through the compact skipper (and binary as a cross-check of
// the harness itself): candidates, registered by calibration
macro_rules! sc {
    ($tier:ident, $shape:ident, $p:ty, $pn:ident, $unw:expr) => { paste! {
        crate::proof!{ #[kani::unwind($unw)] fn [<c07_ $tier _concrete_ $shape:lower _ $pn>]() { skip::skip_concrete::<$p, {skip::$shape}>() } }
    }};
}
sc!(q, V_LIST_I32_2, PCompact, compact, 4);
sc!(q, V_MAP_I8_BIN, PCompact, compact, 4);
sc!(q, V_STRUCT_NEST, PCompact, compact, 4);
sc!(t, V_UUID, PCompact, compact, 17);
sc!(t, V_BINARY2, PCompact, compact, 4);
sc!(t, V_LIST_EMPTY, PCompact, compact, 4);
sc!(t, V_LIST_BIN_1, PCompact, compact, 4);
sc!(t, V_LIST_BOOL_2, PCompact, compact, 4);
sc!(t, V_LIST_STRUCT, PCompact, compact, 4);
sc!(t, V_SET_I8_2, PCompact, compact, 4);
sc!(t, V_SET_EMPTY_BIN, PCompact, compact, 4);
sc!(t, V_MAP_EMPTY, PCompact, compact, 4);
sc!(t, V_MAP_I16_I64, PCompact, compact, 12);
sc!(t, V_STRUCT_FLAT, PCompact, compact, 5);
sc!(t, V_STRUCT_EMPTY, PCompact, compact, 4);
sc!(t, V_LIST_I32_2, PBin, bin, 4);
