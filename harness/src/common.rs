//! Shared cuts (stubs), helpers and the `proof!` wrapper. Every stub here is part of
//! every claim made by a harness that uses it (DESIGN.md §2.1, cuts S1-S8).
#![allow(unused)]
pub use bytes::{Buf, BufMut, Bytes, BytesMut};
pub use pilota::{
    FastStr,
    thrift::{
        Message, ProtocolException, ProtocolExceptionKind, TFieldIdentifier, TInputProtocol,
        TLengthProtocol, TListIdentifier, TMapIdentifier, TMessageIdentifier, TMessageType,
        TOutputProtocol, TSetIdentifier, TStructIdentifier, TType, ThriftException,
    },
};

/// S1: text of `format!` messages is dropped.
pub fn fmt_stub(_a: core::fmt::Arguments<'_>) -> String {
    String::new()
}
/// S2: `io::Error` Display (used by `TransportException::from`) prints nothing.
pub fn ioerr_display_stub(
    _e: &std::io::Error,
    _f: &mut core::fmt::Formatter<'_>,
) -> core::fmt::Result {
    Ok(())
}
/// S3: protocol exceptions keep their kind and lose their text.
pub fn npe_stub<S: Into<FastStr>>(kind: ProtocolExceptionKind, message: S) -> ThriftException {
    core::mem::forget(message);
    ThriftException::Protocol(ProtocolException::new(kind, FastStr::empty()))
}
/// S4: error decoration is a no-op.
pub fn prepend_stub(_e: &mut ThriftException, _m: &str) {}
/// S5: growth of the output buffer is an error of the harness, never silently taken.
pub fn reserve_inner_stub(_b: &mut BytesMut, _additional: usize, _allocate: bool) -> bool {
    #[cfg(kani)]
    {
        kani::assert(false, "HARNESS: output buffer capacity exceeded (growth path is outside the claim)");
        kani::assume(false);
    }
    false
}

/// Unwrap without Debug formatting of the error.
#[inline(always)]
pub fn ok<T, E>(r: Result<T, E>) -> T {
    match r {
        Ok(v) => v,
        Err(e) => {
            core::mem::forget(e);
            #[cfg(kani)]
            {
                kani::assert(false, "unexpected Err from the real code");
                kani::assume(false);
            }
            loop {}
        }
    }
}

/// S7: static input buffer of N bytes (content given), as `Bytes`.
pub fn static_input<const N: usize>(arr: [u8; N]) -> Bytes {
    let leaked: &'static [u8; N] = Box::leak(Box::new(arr));
    Bytes::from_static(&leaked[..])
}

#[cfg(kani)]
pub fn any_static_input<const N: usize>() -> Bytes {
    let arr: [u8; N] = kani::any();
    static_input(arr)
}

/// Symbolic-length prefix of an arbitrary N-byte buffer.
#[cfg(kani)]
pub fn any_static_input_upto<const N: usize>() -> Bytes {
    let mut b = any_static_input::<N>();
    let len: usize = kani::any();
    kani::assume(len <= N);
    b.truncate(len);
    b
}

pub const SID: TStructIdentifier = TStructIdentifier { name: "s" };

/// S8: contract of `skip_till_depth` ("Err, or consume exactly n <= remaining and
/// return n"), installed in place of the recursive default skipper.
pub trait SkipStub: TInputProtocol {
    fn skip_stub(&mut self, _t: TType, _d: i8) -> Result<usize, ThriftException> {
        #[cfg(kani)]
        {
            let n: usize = kani::any();
            let rem = self.buf().remaining();
            if kani::any() || n > rem {
                return Err(npe_stub(ProtocolExceptionKind::InvalidData, ""));
            }
            self.buf().advance(n);
            return Ok(n);
        }
        #[cfg(not(kani))]
        unreachable!()
    }
}
impl<T: TInputProtocol> SkipStub for T {}

/// Assertion that is active only in the harness instance of the property it belongs to.
#[macro_export]
macro_rules! chk {
    ($active:expr, $cond:expr, $msg:literal) => {
        if $active {
            kani::assert($cond, $msg);
        }
    };
}

/// Wraps a harness with the standard cuts S1-S5.
#[macro_export]
macro_rules! proof {
    ($(#[$m:meta])* fn $name:ident() $body:block) => {
        #[cfg(kani)]
        #[kani::proof]
        #[kani::stub(alloc::fmt::format, $crate::common::fmt_stub)]
        #[kani::stub(<std::io::Error as core::fmt::Display>::fmt, $crate::common::ioerr_display_stub)]
        #[kani::stub(pilota::thrift::new_protocol_exception, $crate::common::npe_stub)]
        #[kani::stub(pilota::thrift::ThriftException::prepend_msg, $crate::common::prepend_stub)]
        #[kani::stub(bytes::BytesMut::reserve_inner, $crate::common::reserve_inner_stub)]
        $(#[$m])*
        pub fn $name() $body
    };
}

/// Same plus S8 (skip contract stub).
#[macro_export]
macro_rules! proof_skipstub {
    ($(#[$m:meta])* fn $name:ident() $body:block) => {
        #[cfg(kani)]
        #[kani::proof]
        #[kani::stub(alloc::fmt::format, $crate::common::fmt_stub)]
        #[kani::stub(<std::io::Error as core::fmt::Display>::fmt, $crate::common::ioerr_display_stub)]
        #[kani::stub(pilota::thrift::new_protocol_exception, $crate::common::npe_stub)]
        #[kani::stub(pilota::thrift::ThriftException::prepend_msg, $crate::common::prepend_stub)]
        #[kani::stub(bytes::BytesMut::reserve_inner, $crate::common::reserve_inner_stub)]
        #[kani::stub(pilota::thrift::TInputProtocol::skip_till_depth, $crate::common::SkipStub::skip_stub)]
        $(#[$m])*
        pub fn $name() $body
    };
}
