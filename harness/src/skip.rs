//! C07: skipping a value consumes exactly that value.
//! Writer-produced values framed as one struct field (`field_begin(ty,id) value`), followed by a
//! symbolic 2-byte tail. The reader reads the field header, calls skip(ty) and must report the
//! number of bytes of the value, leave exactly the tail, and read the tail like a fresh reader.
#![allow(unused)]
use crate::common::*;
use crate::protos::*;

pub const V_BOOL: u8 = 0;
pub const V_I8: u8 = 1;
pub const V_I16: u8 = 2;
pub const V_I32: u8 = 3;
pub const V_I64: u8 = 4;
pub const V_DOUBLE: u8 = 5;
pub const V_UUID: u8 = 6;
pub const V_BINARY2: u8 = 7; // binary of 2 symbolic bytes
pub const V_BINARY0: u8 = 8;
pub const V_LIST_I32_2: u8 = 9; // list<i32> of 2
pub const V_LIST_EMPTY: u8 = 10;
pub const V_LIST_BIN_1: u8 = 11; // list<binary(1)> of 1 (slow path of the unchecked skipper)
pub const V_SET_I8_2: u8 = 12;
pub const V_MAP_I8_BIN: u8 = 13; // map<i8, binary(1)> with 1 entry
pub const V_MAP_EMPTY: u8 = 14;
pub const V_MAP_I16_I64: u8 = 15; // map<i16,i64> with 1 entry (fixed-size fast path)
pub const V_STRUCT_FLAT: u8 = 16; // struct{1: i8, 2: bool, 5: i32}
pub const V_STRUCT_NEST: u8 = 17; // struct{1: struct{3: i16}, 2: i8}
pub const V_STRUCT_EMPTY: u8 = 18;
pub const V_LIST_STRUCT: u8 = 19; // list<struct{1:i8}> of 2
pub const V_LIST_BOOL_2: u8 = 20;
pub const V_SET_EMPTY_BIN: u8 = 21; // empty set<binary>
pub const V_SET_EMPTY_STRUCT: u8 = 22; // empty set<struct>

pub const fn ttype_of_shape(shape: u8) -> TType {
    match shape {
        V_BOOL => TType::Bool,
        V_I8 => TType::I8,
        V_I16 => TType::I16,
        V_I32 => TType::I32,
        V_I64 => TType::I64,
        V_DOUBLE => TType::Double,
        V_UUID => TType::Uuid,
        V_BINARY2 | V_BINARY0 => TType::Binary,
        V_LIST_I32_2 | V_LIST_EMPTY | V_LIST_BIN_1 | V_LIST_STRUCT | V_LIST_BOOL_2 => TType::List,
        V_SET_I8_2 | V_SET_EMPTY_BIN | V_SET_EMPTY_STRUCT => TType::Set,
        V_MAP_I8_BIN | V_MAP_EMPTY | V_MAP_I16_I64 => TType::Map,
        _ => TType::Struct,
    }
}

/// Symbolic leaves shared by every writer that must produce "the same value".
#[derive(Clone, Copy)]
pub struct Leaves {
    pub b: [bool; 2],
    pub i8s: [i8; 2],
    pub i16v: i16,
    pub i32s: [i32; 2],
    pub i64v: i64,
    pub dbits: u64,
    pub uuid: [u8; 16],
    pub p2: [u8; 2],
}
#[cfg(kani)]
impl Leaves {
    pub fn any() -> Self {
        Leaves { b: kani::any(), i8s: kani::any(), i16v: kani::any(), i32s: kani::any(), i64v: kani::any(), dbits: kani::any(), uuid: kani::any(), p2: kani::any() }
    }
}

/// Writes one value of the given shape; leaves come from `l`.
#[cfg(kani)]
pub fn write_shape<W: TOutputProtocol>(w: &mut W, shape: u8, l: &Leaves) {
    match shape {
        V_BOOL => ok(w.write_bool(l.b[0])),
        V_I8 => ok(w.write_i8(l.i8s[0])),
        V_I16 => ok(w.write_i16(l.i16v)),
        V_I32 => ok(w.write_i32(l.i32s[0])),
        V_I64 => ok(w.write_i64(l.i64v)),
        V_DOUBLE => ok(w.write_double(f64::from_bits(l.dbits))),
        V_UUID => ok(w.write_uuid(l.uuid)),
        V_BINARY2 => {
            ok(w.write_bytes_vec(&l.p2));
        }
        V_BINARY0 => ok(w.write_bytes_vec(&[])),
        V_LIST_I32_2 => {
            ok(w.write_list_begin(TListIdentifier { element_type: TType::I32, size: 2 }));
            ok(w.write_i32(l.i32s[0]));
            ok(w.write_i32(l.i32s[1]));
            ok(w.write_list_end());
        }
        V_LIST_BOOL_2 => {
            ok(w.write_list_begin(TListIdentifier { element_type: TType::Bool, size: 2 }));
            ok(w.write_bool(l.b[0]));
            ok(w.write_bool(l.b[1]));
            ok(w.write_list_end());
        }
        V_LIST_EMPTY => {
            ok(w.write_list_begin(TListIdentifier { element_type: TType::Struct, size: 0 }));
            ok(w.write_list_end());
        }
        V_LIST_BIN_1 => {
            ok(w.write_list_begin(TListIdentifier { element_type: TType::Binary, size: 1 }));
            ok(w.write_bytes_vec(&l.p2[..1]));
            ok(w.write_list_end());
        }
        V_SET_I8_2 => {
            ok(w.write_set_begin(TSetIdentifier { element_type: TType::I8, size: 2 }));
            ok(w.write_i8(l.i8s[0]));
            ok(w.write_i8(l.i8s[1]));
            ok(w.write_set_end());
        }
        V_SET_EMPTY_BIN => {
            ok(w.write_set_begin(TSetIdentifier { element_type: TType::Binary, size: 0 }));
            ok(w.write_set_end());
        }
        V_SET_EMPTY_STRUCT => {
            ok(w.write_set_begin(TSetIdentifier { element_type: TType::Struct, size: 0 }));
            ok(w.write_set_end());
        }
        V_MAP_I8_BIN => {
            ok(w.write_map_begin(TMapIdentifier { key_type: TType::I8, value_type: TType::Binary, size: 1 }));
            ok(w.write_i8(l.i8s[0]));
            ok(w.write_bytes_vec(&l.p2[..1]));
            ok(w.write_map_end());
        }
        V_MAP_I16_I64 => {
            ok(w.write_map_begin(TMapIdentifier { key_type: TType::I16, value_type: TType::I64, size: 1 }));
            ok(w.write_i16(l.i16v));
            ok(w.write_i64(l.i64v));
            ok(w.write_map_end());
        }
        V_MAP_EMPTY => {
            ok(w.write_map_begin(TMapIdentifier { key_type: TType::I32, value_type: TType::Struct, size: 0 }));
            ok(w.write_map_end());
        }
        V_STRUCT_FLAT => {
            ok(w.write_struct_begin(&SID));
            ok(w.write_field_begin(TType::I8, 1));
            ok(w.write_i8(l.i8s[0]));
            ok(w.write_field_end());
            ok(w.write_field_begin(TType::Bool, 2));
            ok(w.write_bool(l.b[0]));
            ok(w.write_field_end());
            ok(w.write_field_begin(TType::I32, 5));
            ok(w.write_i32(l.i32s[0]));
            ok(w.write_field_end());
            ok(w.write_field_stop());
            ok(w.write_struct_end());
        }
        V_STRUCT_NEST => {
            ok(w.write_struct_begin(&SID));
            ok(w.write_field_begin(TType::Struct, 1));
            ok(w.write_struct_begin(&SID));
            ok(w.write_field_begin(TType::I16, 3));
            ok(w.write_i16(l.i16v));
            ok(w.write_field_end());
            ok(w.write_field_stop());
            ok(w.write_struct_end());
            ok(w.write_field_end());
            ok(w.write_field_begin(TType::I8, 2));
            ok(w.write_i8(l.i8s[0]));
            ok(w.write_field_end());
            ok(w.write_field_stop());
            ok(w.write_struct_end());
        }
        V_STRUCT_EMPTY => {
            ok(w.write_struct_begin(&SID));
            ok(w.write_field_stop());
            ok(w.write_struct_end());
        }
        _ => {
            // V_LIST_STRUCT
            ok(w.write_list_begin(TListIdentifier { element_type: TType::Struct, size: 2 }));
            let mut i = 0;
            while i < 2 {
                ok(w.write_struct_begin(&SID));
                ok(w.write_field_begin(TType::I8, 1));
                ok(w.write_i8(l.i8s[i]));
                ok(w.write_field_end());
                ok(w.write_field_stop());
                ok(w.write_struct_end());
                i += 1;
            }
            ok(w.write_list_end());
        }
    }
}

/// (a) writer-produced value framed as a field, then a symbolic tail
#[cfg(kani)]
pub fn skip_written<P: Proto, const SHAPE: u8>() {
    let ty = ttype_of_shape(SHAPE);
    let id: i16 = kani::any();
    kani::assume(id > 0);
    let leaves = Leaves::any();
    let mut out = BytesMut::with_capacity(64);
    let hdr_len;
    {
        let mut w = P::writer(&mut out);
        ok(w.write_struct_begin(&SID));
        ok(w.write_field_begin(ty, id));
        if SHAPE == V_BOOL {
            // compact folds a bool field's value into its header
            ok(w.write_bool(leaves.b[0]));
        }
        P::finish(w);
    }
    hdr_len = out.len();
    {
        // second writer object continuing on the same buffer (binary family is stateless; for
        // compact the value encoding does not depend on the field context)
        let mut rest = BytesMut::with_capacity(64);
        let mut w = P::writer(&mut rest);
        if SHAPE != V_BOOL {
            write_shape(&mut w, SHAPE, &leaves);
        }
        P::finish(w);
        out.put_slice(&rest[..]);
        core::mem::forget(rest);
    }
    // a bool FIELD: compact folds the value into the header (0 value bytes); the binary family
    // writes one value byte, which the first writer above already emitted together with the header
    let written = if SHAPE == V_BOOL { if P::WIRE == Wire::Compact { 0 } else { 1 } } else { out.len() - hdr_len };
    let tail: [u8; 2] = kani::any();
    out.put_slice(&tail);
    let mut b = out.freeze();
    let mut r = P::reader(&mut b);
    ok(r.read_struct_begin());
    let f = ok(r.read_field_begin());
    kani::assert(f.field_type == ty, "HARNESS: field type read back");
    let n = ok(r.skip(ty));
    kani::assert(n == written, "C07: skip reports the number of bytes of the value");
    ok(r.read_field_end());
    kani::assert(P::remaining(&mut r) == 2, "C07: skip consumes exactly the value");
    let t0 = ok(r.read_byte());
    let t1 = ok(r.read_byte());
    kani::assert(t0 == tail[0] && t1 == tail[1], "C07: what follows is read as if the value had never been there");
    kani::cover!(true, "reached end");
    core::mem::forget(r);
    core::mem::forget(b);
}

/// (c) depth limit: struct nested D deep (innermost holds one i8), skipped with budget LIMIT.
/// LIMIT >= D+1 must succeed and consume everything; LIMIT <= D must fail with an error, not recurse.
#[cfg(kani)]
pub fn skip_depth<P: Proto, const D: usize, const LIMIT: i8>() {
    let mut out = BytesMut::with_capacity(64);
    {
        let mut w = P::writer(&mut out);
        let mut i = 0;
        while i < D {
            ok(w.write_struct_begin(&SID));
            ok(w.write_field_begin(TType::Struct, 1));
            i += 1;
        }
        ok(w.write_struct_begin(&SID));
        ok(w.write_field_begin(TType::I8, 1));
        // concrete leaf: after a refused recursive call CBMC's symex keeps unrolling the field
        // loop (it does not fold the Err discriminant) and would read a symbolic leaf as a
        // type byte, which makes the ThriftException drop glue in read_field_begin's map_err
        // feasible (measured: 15 s -> out of memory). The solver discards those paths.
        ok(w.write_i8(0));
        ok(w.write_field_end());
        ok(w.write_field_stop());
        ok(w.write_struct_end());
        let mut i = 0;
        while i < D {
            ok(w.write_field_end());
            ok(w.write_field_stop());
            ok(w.write_struct_end());
            i += 1;
        }
        P::finish(w);
    }
    let written = out.len();
    let mut b = out.freeze();
    let mut r = P::reader(&mut b);
    let res = r.skip_till_depth(TType::Struct, LIMIT);
    // nesting = D+1 structs; the innermost i8 needs one more level
    if (LIMIT as usize) >= D + 2 {
        match &res {
            Ok(n) => kani::assert(*n == written && P::remaining(&mut r) == 0, "C07: nested struct skipped exactly"),
            Err(_) => kani::assert(false, "C07: nesting within the limit must be skipped"),
        }
    } else {
        match &res {
            Ok(_) => kani::assert(false, "C07: nesting beyond the limit must be refused"),
            Err(ThriftException::Protocol(p)) => kani::assert(p.kind() == ProtocolExceptionKind::DepthLimit, "C07: refusal is a depth-limit error"),
            Err(_) => kani::assert(false, "C07: refusal is a depth-limit error"),
        }
    }
    kani::cover!(true, "reached end");
    core::mem::forget(res);
    core::mem::forget(r);
    core::mem::forget(b);
}

/// (b) adversarial bytes, depth 1: skip_till_depth(ty, 1) on an arbitrary N-byte buffer.
/// No panic; Ok(n) => n == bytes consumed. Containers therefore fail at their first element
/// (depth 0) unless empty: this exercises every primitive and every container header.
#[cfg(kani)]
pub fn skip_arbitrary<P: Proto, const TY: u8, const N: usize>() {
    let ty = crate::l1::ttype_of(TY);
    let mut b = any_static_input::<N>();
    let mut r = P::reader(&mut b);
    let before = P::remaining(&mut r);
    let res = r.skip_till_depth(ty, 1);
    if let Ok(n) = &res {
        let after = P::remaining(&mut r);
        kani::assert(before - after == *n, "C07: skip reports exactly the bytes it consumed");
    }
    kani::cover!(true, "reached end");
    core::mem::forget(res);
    core::mem::forget(r);
    core::mem::forget(b);
}

/// Void / Stop are not skippable data: the skipper must refuse them (C03: type codes outside
/// the specification are rejected).
#[cfg(kani)]
pub fn skip_void<P: Proto>() {
    let mut b = any_static_input::<4>();
    let mut r = P::reader(&mut b);
    let res = r.skip_till_depth(TType::Void, 4);
    kani::assert(res.is_err(), "C07: Void is not a skippable wire type");
    core::mem::forget(res);
    let res = r.skip_till_depth(TType::Stop, 4);
    kani::assert(res.is_err(), "C07: Stop is not a skippable wire type");
    kani::cover!(true, "reached end");
    core::mem::forget(res);
    core::mem::forget(r);
    core::mem::forget(b);
}

/// Length pass mirroring `write_shape` call by call (what generated `size()` bodies do).
pub fn len_shape<W: TLengthProtocol>(w: &mut W, shape: u8, l: &Leaves) -> usize {
    let mut n = 0usize;
    match shape {
        V_BOOL => n += w.bool_len(l.b[0]),
        V_I8 => n += w.i8_len(l.i8s[0]),
        V_I16 => n += w.i16_len(l.i16v),
        V_I32 => n += w.i32_len(l.i32s[0]),
        V_I64 => n += w.i64_len(l.i64v),
        V_DOUBLE => n += w.double_len(f64::from_bits(l.dbits)),
        V_UUID => n += w.uuid_len(l.uuid),
        V_BINARY2 => n += w.bytes_vec_len(&l.p2),
        V_BINARY0 => n += w.bytes_vec_len(&[]),
        V_LIST_I32_2 => {
            n += w.list_begin_len(TListIdentifier { element_type: TType::I32, size: 2 });
            n += w.i32_len(l.i32s[0]);
            n += w.i32_len(l.i32s[1]);
            n += w.list_end_len();
        }
        V_LIST_BOOL_2 => {
            n += w.list_begin_len(TListIdentifier { element_type: TType::Bool, size: 2 });
            n += w.bool_len(l.b[0]);
            n += w.bool_len(l.b[1]);
            n += w.list_end_len();
        }
        V_LIST_EMPTY => {
            n += w.list_begin_len(TListIdentifier { element_type: TType::Struct, size: 0 });
            n += w.list_end_len();
        }
        V_LIST_BIN_1 => {
            n += w.list_begin_len(TListIdentifier { element_type: TType::Binary, size: 1 });
            n += w.bytes_vec_len(&l.p2[..1]);
            n += w.list_end_len();
        }
        V_SET_I8_2 => {
            n += w.set_begin_len(TSetIdentifier { element_type: TType::I8, size: 2 });
            n += w.i8_len(l.i8s[0]);
            n += w.i8_len(l.i8s[1]);
            n += w.set_end_len();
        }
        V_SET_EMPTY_BIN => {
            n += w.set_begin_len(TSetIdentifier { element_type: TType::Binary, size: 0 });
            n += w.set_end_len();
        }
        V_SET_EMPTY_STRUCT => {
            n += w.set_begin_len(TSetIdentifier { element_type: TType::Struct, size: 0 });
            n += w.set_end_len();
        }
        V_MAP_I8_BIN => {
            n += w.map_begin_len(TMapIdentifier { key_type: TType::I8, value_type: TType::Binary, size: 1 });
            n += w.i8_len(l.i8s[0]);
            n += w.bytes_vec_len(&l.p2[..1]);
            n += w.map_end_len();
        }
        V_MAP_I16_I64 => {
            n += w.map_begin_len(TMapIdentifier { key_type: TType::I16, value_type: TType::I64, size: 1 });
            n += w.i16_len(l.i16v);
            n += w.i64_len(l.i64v);
            n += w.map_end_len();
        }
        V_MAP_EMPTY => {
            n += w.map_begin_len(TMapIdentifier { key_type: TType::I32, value_type: TType::Struct, size: 0 });
            n += w.map_end_len();
        }
        V_STRUCT_FLAT => {
            n += w.struct_begin_len(&SID);
            n += w.field_begin_len(TType::I8, Some(1));
            n += w.i8_len(l.i8s[0]);
            n += w.field_end_len();
            n += w.field_begin_len(TType::Bool, Some(2));
            n += w.bool_len(l.b[0]);
            n += w.field_end_len();
            n += w.field_begin_len(TType::I32, Some(5));
            n += w.i32_len(l.i32s[0]);
            n += w.field_end_len();
            n += w.field_stop_len();
            n += w.struct_end_len();
        }
        V_STRUCT_NEST => {
            n += w.struct_begin_len(&SID);
            n += w.field_begin_len(TType::Struct, Some(1));
            n += w.struct_begin_len(&SID);
            n += w.field_begin_len(TType::I16, Some(3));
            n += w.i16_len(l.i16v);
            n += w.field_end_len();
            n += w.field_stop_len();
            n += w.struct_end_len();
            n += w.field_end_len();
            n += w.field_begin_len(TType::I8, Some(2));
            n += w.i8_len(l.i8s[0]);
            n += w.field_end_len();
            n += w.field_stop_len();
            n += w.struct_end_len();
        }
        V_STRUCT_EMPTY => {
            n += w.struct_begin_len(&SID);
            n += w.field_stop_len();
            n += w.struct_end_len();
        }
        _ => {
            n += w.list_begin_len(TListIdentifier { element_type: TType::Struct, size: 2 });
            let mut i = 0;
            while i < 2 {
                n += w.struct_begin_len(&SID);
                n += w.field_begin_len(TType::I8, Some(1));
                n += w.i8_len(l.i8s[i]);
                n += w.field_end_len();
                n += w.field_stop_len();
                n += w.struct_end_len();
                i += 1;
            }
            n += w.list_end_len();
        }
    }
    n
}

/// Reads one value of the given shape with the typed reader API; true iff every header and
/// leaf equals what `write_shape` wrote from `l`.
#[cfg(kani)]
pub fn read_shape<R: TInputProtocol>(r: &mut R, shape: u8, l: &Leaves) -> bool {
    let mut g = true;
    match shape {
        V_BOOL => g &= ok(r.read_bool()) == l.b[0],
        V_I8 => g &= ok(r.read_i8()) == l.i8s[0],
        V_I16 => g &= ok(r.read_i16()) == l.i16v,
        V_I32 => g &= ok(r.read_i32()) == l.i32s[0],
        V_I64 => g &= ok(r.read_i64()) == l.i64v,
        V_DOUBLE => g &= ok(r.read_double()).to_bits() == l.dbits,
        V_UUID => g &= ok(r.read_uuid()) == l.uuid,
        V_BINARY2 => {
            let b = ok(r.read_bytes());
            g &= b.len() == 2 && b[0] == l.p2[0] && b[1] == l.p2[1];
            core::mem::forget(b);
        }
        V_BINARY0 => {
            let b = ok(r.read_bytes());
            g &= b.len() == 0;
            core::mem::forget(b);
        }
        V_LIST_I32_2 => {
            let h = ok(r.read_list_begin());
            g &= h.element_type == TType::I32 && h.size == 2;
            g &= ok(r.read_i32()) == l.i32s[0];
            g &= ok(r.read_i32()) == l.i32s[1];
            ok(r.read_list_end());
        }
        V_LIST_BOOL_2 => {
            let h = ok(r.read_list_begin());
            g &= h.element_type == TType::Bool && h.size == 2;
            g &= ok(r.read_bool()) == l.b[0];
            g &= ok(r.read_bool()) == l.b[1];
            ok(r.read_list_end());
        }
        V_LIST_EMPTY => {
            let h = ok(r.read_list_begin());
            g &= h.element_type == TType::Struct && h.size == 0;
            ok(r.read_list_end());
        }
        V_LIST_BIN_1 => {
            let h = ok(r.read_list_begin());
            g &= h.element_type == TType::Binary && h.size == 1;
            let b = ok(r.read_bytes());
            g &= b.len() == 1 && b[0] == l.p2[0];
            core::mem::forget(b);
            ok(r.read_list_end());
        }
        V_SET_I8_2 => {
            let h = ok(r.read_set_begin());
            g &= h.element_type == TType::I8 && h.size == 2;
            g &= ok(r.read_i8()) == l.i8s[0];
            g &= ok(r.read_i8()) == l.i8s[1];
            ok(r.read_set_end());
        }
        V_SET_EMPTY_BIN => {
            let h = ok(r.read_set_begin());
            g &= h.element_type == TType::Binary && h.size == 0;
            ok(r.read_set_end());
        }
        V_SET_EMPTY_STRUCT => {
            let h = ok(r.read_set_begin());
            g &= h.element_type == TType::Struct && h.size == 0;
            ok(r.read_set_end());
        }
        V_MAP_I8_BIN => {
            let h = ok(r.read_map_begin());
            g &= h.key_type == TType::I8 && h.value_type == TType::Binary && h.size == 1;
            g &= ok(r.read_i8()) == l.i8s[0];
            let b = ok(r.read_bytes());
            g &= b.len() == 1 && b[0] == l.p2[0];
            core::mem::forget(b);
            ok(r.read_map_end());
        }
        V_MAP_I16_I64 => {
            let h = ok(r.read_map_begin());
            g &= h.key_type == TType::I16 && h.value_type == TType::I64 && h.size == 1;
            g &= ok(r.read_i16()) == l.i16v;
            g &= ok(r.read_i64()) == l.i64v;
            ok(r.read_map_end());
        }
        V_MAP_EMPTY => {
            let h = ok(r.read_map_begin());
            g &= h.size == 0;
            ok(r.read_map_end());
        }
        V_STRUCT_FLAT => {
            ok(r.read_struct_begin());
            let f = ok(r.read_field_begin());
            g &= f.field_type == TType::I8 && f.id == Some(1);
            g &= ok(r.read_i8()) == l.i8s[0];
            ok(r.read_field_end());
            let f = ok(r.read_field_begin());
            g &= f.field_type == TType::Bool && f.id == Some(2);
            g &= ok(r.read_bool()) == l.b[0];
            ok(r.read_field_end());
            let f = ok(r.read_field_begin());
            g &= f.field_type == TType::I32 && f.id == Some(5);
            g &= ok(r.read_i32()) == l.i32s[0];
            ok(r.read_field_end());
            let f = ok(r.read_field_begin());
            g &= f.field_type == TType::Stop;
            ok(r.read_struct_end());
        }
        V_STRUCT_NEST => {
            ok(r.read_struct_begin());
            let f = ok(r.read_field_begin());
            g &= f.field_type == TType::Struct && f.id == Some(1);
            ok(r.read_struct_begin());
            let f = ok(r.read_field_begin());
            g &= f.field_type == TType::I16 && f.id == Some(3);
            g &= ok(r.read_i16()) == l.i16v;
            ok(r.read_field_end());
            let f = ok(r.read_field_begin());
            g &= f.field_type == TType::Stop;
            ok(r.read_struct_end());
            ok(r.read_field_end());
            // the sibling after a nested struct: outer field-id context must be restored
            let f = ok(r.read_field_begin());
            g &= f.field_type == TType::I8 && f.id == Some(2);
            g &= ok(r.read_i8()) == l.i8s[0];
            ok(r.read_field_end());
            let f = ok(r.read_field_begin());
            g &= f.field_type == TType::Stop;
            ok(r.read_struct_end());
        }
        V_STRUCT_EMPTY => {
            ok(r.read_struct_begin());
            let f = ok(r.read_field_begin());
            g &= f.field_type == TType::Stop;
            ok(r.read_struct_end());
        }
        _ => {
            let h = ok(r.read_list_begin());
            g &= h.element_type == TType::Struct && h.size == 2;
            let mut i = 0;
            while i < 2 {
                ok(r.read_struct_begin());
                let f = ok(r.read_field_begin());
                g &= f.field_type == TType::I8 && f.id == Some(1);
                g &= ok(r.read_i8()) == l.i8s[i];
                ok(r.read_field_end());
                let f = ok(r.read_field_begin());
                g &= f.field_type == TType::Stop;
                ok(r.read_struct_end());
                i += 1;
            }
            ok(r.read_list_end());
        }
    }
    g
}

/// After skipping a struct that contains a bool FIELD, a bool read as a container ELEMENT must
/// come from the wire (compact keeps the field's bool in reader state). Minimal form: the
/// struct {1: bool} is skipped directly and a bare bool element follows it.
#[cfg(kani)]
pub fn skip_struct_then_bool<P: Proto, const FB: bool>() {
    // the FIELD's bool is concrete per instance: in compact it is part of the field-header byte,
    // and a symbolic header byte makes every type arm of the recursive skipper feasible
    let fb: bool = FB;
    let eb: bool = kani::any();
    let mut out = BytesMut::with_capacity(16);
    {
        let mut w = P::writer(&mut out);
        ok(w.write_struct_begin(&SID));
        ok(w.write_field_begin(TType::Bool, 1));
        ok(w.write_bool(fb));
        ok(w.write_field_end());
        ok(w.write_field_stop());
        ok(w.write_struct_end());
        ok(w.write_bool(eb));
        P::finish(w);
    }
    let total = out.len();
    let mut b = out.freeze();
    let mut r = P::reader(&mut b);
    let n = ok(r.skip_till_depth(TType::Struct, 3));
    kani::assert(n + 1 == total, "C07: skip reports the bytes of the struct");
    let got = ok(r.read_bool());
    kani::assert(got == eb, "C07: a bool element after a skipped struct with a bool field is decoded as if the struct had never been there");
    kani::assert(P::remaining(&mut r) == 0, "C07: everything consumed");
    kani::cover!(fb != eb, "field bool differs from element bool");
    kani::cover!(true, "reached end");
    core::mem::forget(r);
    core::mem::forget(b);
}

/// Depth budget through MAP VALUES: map<i8, map<i8, i8>> (two maps + leaf = 3 levels).
#[cfg(kani)]
pub fn skip_depth_map<P: Proto, const LIMIT: i8>() {
    let mut out = BytesMut::with_capacity(32);
    {
        let mut w = P::writer(&mut out);
        ok(w.write_map_begin(TMapIdentifier { key_type: TType::I8, value_type: TType::Map, size: 1 }));
        ok(w.write_i8(1));
        ok(w.write_map_begin(TMapIdentifier { key_type: TType::I8, value_type: TType::I8, size: 1 }));
        ok(w.write_i8(2));
        ok(w.write_i8(0));
        ok(w.write_map_end());
        ok(w.write_map_end());
        P::finish(w);
    }
    let written = out.len();
    let mut b = out.freeze();
    let mut r = P::reader(&mut b);
    let res = r.skip_till_depth(TType::Map, LIMIT);
    if LIMIT >= 3 {
        match &res {
            Ok(n) => kani::assert(*n == written && P::remaining(&mut r) == 0, "C07: nested maps skipped exactly"),
            Err(_) => kani::assert(false, "C07: nesting within the limit must be skipped"),
        }
    } else {
        kani::assert(res.is_err(), "C07: nesting beyond the limit must be refused (map values consume depth budget)");
    }
    kani::cover!(true, "reached end");
    core::mem::forget(res);
    core::mem::forget(r);
    core::mem::forget(b);
}

/// (a') container shapes with CONCRETE leaves (multi-byte varints included) produced by the real
/// writer, then one symbolic tail byte. The compact instances of `skip_written` (symbolic leaves
/// = symbolic varint lengths = symbolic offsets) do not reach a verdict for containers; here only
/// the tail is symbolic, so CBMC folds the offsets and the compact container skipper is decided.
#[cfg(kani)]
pub fn skip_concrete<P: Proto, const SHAPE: u8>() {
    let ty = ttype_of_shape(SHAPE);
    let leaves = Leaves {
        b: [true, false],
        i8s: [-3, 100],
        i16v: -300,               // zigzag 599: 2-byte varint
        i32s: [70000, -1],        // 3-byte and 1-byte varints
        i64v: i64::MIN,           // 10-byte varint
        dbits: 0x4009_21FB_5444_2D18,
        uuid: [1, 2, 3, 4, 5, 6, 7, 8, 9, 10, 11, 12, 13, 14, 15, 16],
        p2: [0xC3, 0x28],
    };
    let mut out = BytesMut::with_capacity(64);
    {
        let mut w = P::writer(&mut out);
        write_shape(&mut w, SHAPE, &leaves);
        P::finish(w);
    }
    let written = out.len();
    let tail: u8 = kani::any();
    out.put_u8(tail);
    let mut b = out.freeze();
    let mut r = P::reader(&mut b);
    let n = ok(r.skip(ty));
    kani::assert(n == written, "C07: skip reports the number of bytes of the value");
    kani::assert(P::remaining(&mut r) == 1, "C07: skip consumes exactly the value");
    let t0 = ok(r.read_byte());
    kani::assert(t0 == tail, "C07: what follows is read as if the value had never been there");
    kani::cover!(true, "reached end");
    core::mem::forget(r);
    core::mem::forget(b);
}
