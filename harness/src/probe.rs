#![allow(unused)]
use crate::common::*;
use crate::protos::*;
crate::proof!{ #[kani::unwind(3)] fn probe_q_a_drop_npe() {
    let e = npe_stub(ProtocolExceptionKind::InvalidData, "");
    drop(e);
}}
crate::proof!{ #[kani::unwind(3)] fn probe_q_b_drop_result() {
    let x: u8 = kani::any();
    let r = TType::try_from(x);
    drop(r);
}}
crate::proof!{ #[kani::unwind(3)] fn probe_q_c_drop_faststr_empty() {
    let e = FastStr::empty();
    drop(e);
}}
crate::proof!{ #[kani::unwind(3)] fn probe_q_d_drop_pe() {
    let e = ProtocolException::new(ProtocolExceptionKind::InvalidData, FastStr::empty());
    drop(e);
}}
