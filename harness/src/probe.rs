#![allow(unused)]
use crate::common::*;
use crate::protos::*;
crate::proof!{ #[kani::unwind(5)] fn probe_q_a_i8_depth0() {
    let mut b = any_static_input::<4>();
    let mut r = PBin::reader(&mut b);
    let res = r.skip_till_depth(TType::I8, 0);
    assert!(res.is_err());
    core::mem::forget(res); core::mem::forget(r); core::mem::forget(b);
}}
crate::proof!{ #[kani::unwind(5)] fn probe_q_b_struct_limit1_forget() {
    let x: u8 = kani::any();
    let mut b = static_input([3, 0, 1, x, 0, 9, 9]);
    let mut r = PBin::reader(&mut b);
    let res = r.skip_till_depth(TType::Struct, 1);
    core::mem::forget(res); core::mem::forget(r); core::mem::forget(b);
}}
crate::proof!{ #[kani::unwind(5)] fn probe_q_c_struct_limit1_iserr() {
    let x: u8 = kani::any();
    let mut b = static_input([3, 0, 1, x, 0, 9, 9]);
    let mut r = PBin::reader(&mut b);
    let res = r.skip_till_depth(TType::Struct, 1);
    assert!(res.is_err());
    core::mem::forget(res); core::mem::forget(r); core::mem::forget(b);
}}
crate::proof!{ #[kani::unwind(5)] fn probe_q_d_struct_limit2_ok() {
    let x: u8 = kani::any();
    let mut b = static_input([3, 0, 1, x, 0, 9, 9]);
    let mut r = PBin::reader(&mut b);
    let res = r.skip_till_depth(TType::Struct, 2);
    assert!(res.is_ok());
    core::mem::forget(res); core::mem::forget(r); core::mem::forget(b);
}}
