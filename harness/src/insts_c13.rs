//! C13 harness instances.
#![allow(unused)]
use crate::c13::{self, *};
use crate::protos::*;
use paste::paste;
macro_rules! it {
    ($tier:ident, $kind:ident, $first:expr, $p:ty, $pn:ident) => { paste! {
        crate::proof!{ #[kani::unwind(6)] fn [<c13_ $tier _item_toplevel_ $kind:lower _first $first _ $pn>]() { c13::item_toplevel::<$p, {c13::$kind}, $first>() } }
    }};
}
it!(q, E_I32, false, PBin, bin);
it!(q, E_I32, true, PBin, bin);
it!(q, E_STR2, false, PBin, bin);
it!(t, E_STR2, true, PBin, bin);
it!(q, E_STRUCT, false, PBin, bin);
it!(q, E_SET, false, PBin, bin);
it!(t, E_SET, true, PBin, bin);
it!(t, E_SET, false, PUnchecked, unchecked);
it!(t, E_STRUCT, true, PBin, bin);
it!(q, E_I32, false, PUnchecked, unchecked);
it!(t, E_STR2, true, PUnchecked, unchecked);
it!(t, E_STRUCT, false, PUnchecked, unchecked);
macro_rules! ia {
    ($tier:ident, $kind:ident, $p:ty, $pn:ident) => { paste! {
        crate::proof!{ #[kani::unwind(6)] fn [<c13_ $tier _item_as_argument_ $kind:lower _ $pn>]() { c13::item_as_argument::<$p, {c13::$kind}>() } }
    }};
}
ia!(q, E_I32, PBin, bin);
ia!(t, E_STR2, PBin, bin);
ia!(t, E_STRUCT, PBin, bin);
ia!(t, E_I32, PUnchecked, unchecked);
crate::proof!{ #[kani::unwind(6)] fn c13_q_item_nested_noname_bin() { c13::item_nested::<PBin, false>() } }
crate::proof!{ #[kani::unwind(6)] fn c13_q_item_nested_withname_bin() { c13::item_nested::<PBin, true>() } }
crate::proof!{ #[kani::unwind(6)] fn c13_t_item_nested_withname_unchecked() { c13::item_nested::<PUnchecked, true>() } }
