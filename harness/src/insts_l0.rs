//! Harness instances of layer L0 (names: c<prop>_<tier>_<body>_<protocol>).
#![allow(unused)]
use crate::l0;
use crate::protos::*;
use paste::paste;

macro_rules! l0_inst {
    ($tier:ident, $f:ident, $p:ty, $pn:ident, $unw:expr) => { paste! {
        crate::proof!{ #[kani::unwind($unw)] fn [<c01_ $tier _ $f _ $pn>]() { l0::$f::<$p, {l0::C01}>() } }
        crate::proof!{ #[kani::unwind($unw)] fn [<c03_ $tier _ $f _ $pn>]() { l0::$f::<$p, {l0::C03}>() } }
        crate::proof!{ #[kani::unwind($unw)] fn [<c04_ $tier _ $f _ $pn>]() { l0::$f::<$p, {l0::C04}>() } }
    }};
}
macro_rules! l0_inst_noc03 {
    ($tier:ident, $f:ident, $p:ty, $pn:ident, $unw:expr) => { paste! {
        crate::proof!{ #[kani::unwind($unw)] fn [<c01_ $tier _ $f _ $pn>]() { l0::$f::<$p, {l0::C01}>() } }
        crate::proof!{ #[kani::unwind($unw)] fn [<c04_ $tier _ $f _ $pn>]() { l0::$f::<$p, {l0::C04}>() } }
    }};
}
macro_rules! l0_all_protos {
    ($tier:ident, $f:ident, $unw_bin:expr, $unw_cmp:expr) => {
        l0_inst!($tier, $f, PBin, bin, $unw_bin);
        l0_inst_noc03!($tier, $f, PLe, le, $unw_bin);
        l0_inst!($tier, $f, PUnchecked, unchecked, $unw_bin);
        l0_inst!($tier, $f, PCompact, compact, $unw_cmp);
    };
}
l0_all_protos!(q, l0_i8, 3, 3);
l0_all_protos!(q, l0_byte, 3, 3);
l0_all_protos!(q, l0_bool, 3, 3);
l0_all_protos!(q, l0_i16, 3, 5);
l0_all_protos!(q, l0_i32, 5, 7);
l0_all_protos!(q, l0_i64, 9, 12);
l0_all_protos!(q, l0_double, 9, 9);
l0_all_protos!(t, l0_uuid, 17, 17);

macro_rules! blob_inst {
    ($tier:ident, $api:ident, $apin:ident, $len:expr, $p:ty, $pn:ident, $unw:expr) => { paste! {
        crate::proof!{ #[kani::unwind($unw)] fn [<c01_ $tier _l0_ $apin $len _ $pn>]() { l0::l0_blob::<$p, {l0::C01}, {l0::$api}, $len>() } }
        crate::proof!{ #[kani::unwind($unw)] fn [<c03_ $tier _l0_ $apin $len _ $pn>]() { l0::l0_blob::<$p, {l0::C03}, {l0::$api}, $len>() } }
        crate::proof!{ #[kani::unwind($unw)] fn [<c04_ $tier _l0_ $apin $len _ $pn>]() { l0::l0_blob::<$p, {l0::C04}, {l0::$api}, $len>() } }
    }};
}
macro_rules! blob_inst_noc03 {
    ($tier:ident, $api:ident, $apin:ident, $len:expr, $p:ty, $pn:ident, $unw:expr) => { paste! {
        crate::proof!{ #[kani::unwind($unw)] fn [<c01_ $tier _l0_ $apin $len _ $pn>]() { l0::l0_blob::<$p, {l0::C01}, {l0::$api}, $len>() } }
        crate::proof!{ #[kani::unwind($unw)] fn [<c04_ $tier _l0_ $apin $len _ $pn>]() { l0::l0_blob::<$p, {l0::C04}, {l0::$api}, $len>() } }
    }};
}
macro_rules! blob_all_protos {
    ($tier:ident, $api:ident, $apin:ident, $len:expr, $unw:expr) => {
        blob_inst!($tier, $api, $apin, $len, PBin, bin, $unw);
        blob_inst_noc03!($tier, $api, $apin, $len, PLe, le, $unw);
        blob_inst!($tier, $api, $apin, $len, PUnchecked, unchecked, $unw);
        blob_inst!($tier, $api, $apin, $len, PCompact, compact, $unw);
    };
}
blob_all_protos!(q, S_STRING, string, 2, 7);
blob_all_protos!(t, S_STRING, string, 0, 7);
blob_all_protos!(t, S_STRING, string, 3, 7);
blob_all_protos!(q, S_FASTSTR, faststr, 2, 7);
blob_all_protos!(t, S_FASTSTR, faststr, 0, 7);
blob_all_protos!(t, S_FASTSTR, faststr, 3, 7);
blob_all_protos!(q, S_BYTES, bytes, 2, 7);
blob_all_protos!(t, S_BYTES, bytes, 0, 7);
blob_all_protos!(t, S_BYTES, bytes, 3, 7);
blob_all_protos!(q, S_BYTES_VEC, bytesvec, 2, 7);
blob_all_protos!(t, S_BYTES_VEC, bytesvec, 3, 7);
