//! C09(a): safe Thrift readers are total on arbitrary bytes: a value or an error, no panic,
//! never reads past the input; a strict prefix of a fixed-width value is an error.
//! Inputs: arbitrary buffers of symbolic length <= N (Bytes::from_static + truncate).
#![allow(unused)]
use crate::common::*;
use crate::protos::*;

pub const R_BOOL: u8 = 0;
pub const R_I8: u8 = 1;
pub const R_I16: u8 = 2;
pub const R_I32: u8 = 3;
pub const R_I64: u8 = 4;
pub const R_DOUBLE: u8 = 5;
pub const R_UUID: u8 = 6;
pub const R_BYTE: u8 = 7;
pub const R_STRING: u8 = 8;
pub const R_FASTSTR: u8 = 9;
pub const R_BYTES: u8 = 10;
pub const R_BYTES_VEC: u8 = 11;
pub const R_FIELD: u8 = 12;
pub const R_LIST: u8 = 13;
pub const R_SET: u8 = 14;
pub const R_MAP: u8 = 15;
pub const R_MESSAGE: u8 = 16;
pub const R_STRUCT_BEGIN_END: u8 = 17;

/// One reader call on an arbitrary buffer of symbolic length <= N.
#[cfg(kani)]
pub fn read_arbitrary<P: Proto, const API: u8, const N: usize>() {
    let mut b = any_static_input_upto::<N>();
    let len0 = b.len();
    let mut r = P::reader(&mut b);
    let is_ok;
    match API {
        R_BOOL => { let x = r.read_bool(); is_ok = x.is_ok(); core::mem::forget(x); }
        R_I8 => { let x = r.read_i8(); is_ok = x.is_ok(); core::mem::forget(x); }
        R_I16 => { let x = r.read_i16(); is_ok = x.is_ok(); core::mem::forget(x); }
        R_I32 => { let x = r.read_i32(); is_ok = x.is_ok(); core::mem::forget(x); }
        R_I64 => { let x = r.read_i64(); is_ok = x.is_ok(); core::mem::forget(x); }
        R_DOUBLE => { let x = r.read_double(); is_ok = x.is_ok(); core::mem::forget(x); }
        R_UUID => { let x = r.read_uuid(); is_ok = x.is_ok(); core::mem::forget(x); }
        R_BYTE => { let x = r.read_byte(); is_ok = x.is_ok(); core::mem::forget(x); }
        R_STRING => { let x = r.read_string(); is_ok = x.is_ok(); core::mem::forget(x); }
        R_FASTSTR => { let x = r.read_faststr(); is_ok = x.is_ok(); core::mem::forget(x); }
        R_BYTES => { let x = r.read_bytes(); is_ok = x.is_ok(); core::mem::forget(x); }
        R_BYTES_VEC => { let x = r.read_bytes_vec(); is_ok = x.is_ok(); core::mem::forget(x); }
        R_FIELD => { let x = r.read_field_begin(); is_ok = x.is_ok(); core::mem::forget(x); }
        R_LIST => { let x = r.read_list_begin(); is_ok = x.is_ok(); core::mem::forget(x); }
        R_SET => { let x = r.read_set_begin(); is_ok = x.is_ok(); core::mem::forget(x); }
        R_MAP => { let x = r.read_map_begin(); is_ok = x.is_ok(); core::mem::forget(x); }
        R_MESSAGE => { let x = r.read_message_begin(); is_ok = x.is_ok(); core::mem::forget(x); }
        _ => {
            let x = r.read_struct_begin();
            let y = r.read_struct_end();
            is_ok = x.is_ok() && y.is_ok();
            core::mem::forget(x);
            core::mem::forget(y);
        }
    }
    let rem = P::remaining(&mut r);
    kani::assert(rem <= len0, "C09: reader never reads past the input");
    // fixed-width values of the binary family: a strict prefix must be rejected
    if P::WIRE != Wire::Compact {
        let need = match API {
            R_BOOL | R_I8 | R_BYTE => 1,
            R_I16 => 2,
            R_I32 => 4,
            R_I64 | R_DOUBLE => 8,
            R_UUID => 16,
            R_LIST | R_SET => 5,
            R_MAP => 6,
            _ => 0,
        };
        if len0 < need {
            kani::assert(!is_ok, "C09: a strict prefix of a value is rejected with an error");
        }
    } else if len0 == 0 && API != R_STRUCT_BEGIN_END {
        kani::assert(!is_ok, "C09: empty input is rejected with an error");
    }
    kani::cover!(is_ok, "some input decodes");
    kani::cover!(!is_ok || API == R_STRUCT_BEGIN_END, "some input is rejected");
    core::mem::forget(r);
    core::mem::forget(b);
}

/// The default skipper (`TInputProtocol::skip_till_depth`) on a fixed-width type over an arbitrary
/// buffer of symbolic length <= N: no panic (CBMC checks `Bytes::advance`'s assertion), a buffer
/// shorter than the value is an error (every strict prefix is rejected), success consumes
/// exactly WIDTH bytes.
#[cfg(kani)]
pub fn skip_fixed_prefix<P: Proto, const TY: u8, const WIDTH: usize, const N: usize>() {
    let ty = crate::l1::ttype_of(TY);
    let mut b = any_static_input_upto::<N>();
    let len0 = b.len();
    let mut r = P::reader(&mut b);
    let res = r.skip_till_depth(ty, 1);
    match &res {
        Ok(n) => {
            kani::assert(len0 >= WIDTH, "C09: a strict prefix of a fixed-width value is rejected by the skipper");
            kani::assert(*n == WIDTH && P::remaining(&mut r) + WIDTH == len0, "C09: the skipper consumes exactly the value");
        }
        Err(_) => kani::assert(len0 < WIDTH, "C09: a complete fixed-width value is skipped"),
    }
    kani::cover!(len0 + 1 == WIDTH, "one byte short");
    kani::cover!(len0 * 2 == WIDTH, "half of the value present");
    kani::cover!(len0 == N, "full buffer");
    core::mem::forget(res);
    core::mem::forget(r);
    core::mem::forget(b);
}
